//! E3b: B+tree simulator over the facade: a real Pager on a real file, operation sequences
//! under a configuration swarm (page size, min keys, siblings, tiny caches that evict pages in
//! the middle of rebalancing, checkpoints between operations) against a `BTreeMap` model with
//! the harness's own key order, plus a structural audit and a page-ownership audit after
//! every mutation.
use crate::run::RunResult;
use crate::sqlsim::Violation;
use crate::util::{self, Rng};
use axmosdb::DBConfig;
use axmosdb::verif::facade::btree::{Dump, Key, KeyKind, Tree};
use serde::{Deserialize, Serialize};
use std::collections::{BTreeMap, BTreeSet};

#[derive(Clone, Debug, Serialize, Deserialize, PartialEq)]
pub enum BtOp {
    Insert(i64),
    Upsert(i64),
    Update(i64),
    Remove(i64),
    Get(i64),
    Scan(bool),
    Checkpoint,
}

#[derive(Clone, Debug, Serialize, Deserialize)]
pub struct BtReplay {
    pub property: String,
    pub engine: String,
    pub seed: u64,
    pub page: usize,
    pub cache: usize,
    pub min_keys: usize,
    pub siblings: usize,
    /// 0 = u64 keys, 1 = i64 keys (negative half included), 2 = fixed-width text keys
    pub key_kind: u8,
    /// every payload of this tree has exactly this many bytes (open finding D31: mixed cell sizes)
    pub payload_len: usize,
    /// payload sizes vary from operation to operation (0 = uniform `payload_len`)
    #[serde(default)]
    pub mixed_sizes: u8,
    pub events: Vec<BtOp>,
    #[serde(default)]
    pub violation: Option<Violation>,
}

pub fn gen_case(prop: &str, verif_seed: u64, idx: u64) -> BtReplay {
    let seed = util::mix(verif_seed, prop, idx);
    let mut rng = Rng::new(seed);
    let page = *rng.pick(&[4096usize, 4096, 8192, 16384]);
    let cache = *rng.pick(&[16usize, 24, 32, 64, 10000]);
    // a tenth of the trees are tall: enough cells for three levels with several interior pages
    let tall = rng.chance(10);
    let n = if tall { rng.range(600, 1400) } else if rng.chance(25) { rng.range(150, 400) } else { rng.range(10, 120) } as usize;
    let keyspace = (n as i64 * *rng.pick(&[1i64, 2, 4])).max(8);
    let mode = rng.below(6);
    // payload size of the tree, small enough never to need an overflow page at any page size / min keys
    // of the swarm (open findings D31b/D32). A third of the trees mix payload sizes of 8-104 bytes from
    // operation to operation (D31, repaired); mixes that include cells of 450-650 bytes are open finding D31e
    let overflow_experiment = std::env::var("AXSIM_NOGUARD").map(|g| g.contains("rows_with_overflow_chains")).unwrap_or(false);
    let payload_len = if overflow_experiment { *rng.pick(&[1000usize, 3000, 6000, 10000]) } else if tall { *rng.pick(&[104usize, 200, 200, 400]) } else { *rng.pick(&[8usize, 24, 104, 200, 400]) };
    let page = if tall { 4096 } else { page };
    let mut ops = vec![];
    let mut asc = 0i64;
    let mut desc = keyspace;
    for i in 0..n {
        let k = match mode {
            0 => {
                asc += 1;
                asc
            }
            1 => {
                desc -= 1;
                desc
            }
            _ => rng.below(keyspace as u64) as i64,
        };
        let r = rng.below(100);
        ops.push(if mode >= 4 {
            // build the tree, remove every key in order (the tree loses all its levels), rebuild
            let third = (n / 3).max(1) as i64;
            let j = i as i64;
            if j < third { BtOp::Insert(j) } else if j < 2 * third { BtOp::Remove(j - third) } else { BtOp::Insert(j - 2 * third) }
        } else if mode == 3 && i > n / 2 && i < n / 2 + n / 4 {
            // delete-everything phase
            BtOp::Remove(rng.below(keyspace as u64) as i64)
        } else if r < 45 {
            BtOp::Insert(k)
        } else if r < 55 {
            BtOp::Upsert(k)
        } else if r < 65 {
            BtOp::Update(rng.below(keyspace as u64) as i64)
        } else if r < 85 {
            BtOp::Remove(rng.below(keyspace as u64) as i64)
        } else if r < 92 {
            BtOp::Get(rng.below(keyspace as u64) as i64)
        } else if r < 97 {
            BtOp::Scan(rng.chance(50))
        } else {
            BtOp::Checkpoint
        });
    }
    ops.push(BtOp::Scan(true));
    ops.push(BtOp::Scan(false));
    BtReplay { property: prop.into(), engine: "E3b-btreesim".into(), seed, page, cache, min_keys: rng.range(3, 6) as usize, siblings: rng.range(1, 3) as usize, key_kind: if rng.chance(20) { 3 } else { rng.below(3) as u8 }, payload_len, mixed_sizes: if std::env::var("AXSIM_NOGUARD").map(|g| g.contains("mixed_cell_sizes_with_large_cells")).unwrap_or(false) { 2 } else if rng.chance(35) { 1 } else { 0 }, events: ops, violation: None }
}

/// the harness's own order over keys
#[derive(Clone, Debug, PartialEq, Eq, PartialOrd, Ord)]
enum OKey {
    U(u64),
    I(i64),
    T(Vec<u8>),
}

fn okey(k: &Key) -> OKey {
    match k {
        Key::U(v) => OKey::U(*v),
        Key::I(v) => OKey::I(*v),
        Key::T(s) => OKey::T(s.as_bytes().to_vec()),
    }
}

fn mk_key(kind: u8, k: i64, keyspace_hint: i64) -> Key {
    match kind {
        0 => Key::U(k as u64),
        1 => Key::I(k - keyspace_hint / 2),
        2 => Key::T(format!("k{:07}", k)),
        // wide fixed-width text key: low fan-out, so that a few hundred keys give a tree of height 3+
        _ => Key::T(format!("k{:0>180}", k)),
    }
}

/// structural audit of one dump; returns a description of the first violation
pub fn audit_structure(d: &Dump) -> Result<(), String> {
    if let Some(e) = &d.error {
        return Err(format!("tree walk failed: {e}"));
    }
    let mut seen = BTreeSet::new();
    for p in &d.pages {
        if !seen.insert(p.id) {
            return Err(format!("page {} is reached twice", p.id));
        }
        if p.num_slots != p.cells.len() {
            return Err(format!("page {}: {} slots but {} cells", p.id, p.num_slots, p.cells.len()));
        }
        for w in p.cells.windows(2) {
            if okey(&w[0].key) >= okey(&w[1].key) {
                return Err(format!("page {}: keys not strictly increasing ({:?} then {:?})", p.id, w[0].key, w[1].key));
            }
        }
        if !p.is_leaf && p.cells.iter().any(|c| c.left_child.is_none()) {
            return Err(format!("interior page {} has a cell without a left child", p.id));
        }
        if p.is_leaf && p.cells.iter().any(|c| c.left_child.is_some()) {
            return Err(format!("leaf page {} has a cell with a left child", p.id));
        }
    }
    // leaves at one depth; sibling links mirror key order
    let leaves: Vec<&axmosdb::verif::facade::btree::PageInfo> = d.pages.iter().filter(|p| p.is_leaf).collect();
    let depths: BTreeSet<usize> = leaves.iter().map(|p| p.depth).collect();
    if depths.len() > 1 {
        return Err(format!("leaves at different depths {:?}", depths));
    }
    for (i, l) in leaves.iter().enumerate() {
        let exp_prev = if i == 0 { None } else { Some(leaves[i - 1].id) };
        let exp_next = leaves.get(i + 1).map(|x| x.id);
        if l.prev != exp_prev || l.next != exp_next {
            return Err(format!("leaf {}: sibling links prev={:?} next={:?}, key order says prev={:?} next={:?}", l.id, l.prev, l.next, exp_prev, exp_next));
        }
    }
    // the same for every interior level (balancing finds a leaf's left cousin through its
    // parent's prev link, so a stale link there silently cuts leaves out of the chain later)
    let max_depth = d.pages.iter().map(|p| p.depth).max().unwrap_or(0);
    for lvl in 1..max_depth {
        let row: Vec<&axmosdb::verif::facade::btree::PageInfo> = d.pages.iter().filter(|p| !p.is_leaf && p.depth == lvl).collect();
        for (i, n) in row.iter().enumerate() {
            let exp_prev = if i == 0 { None } else { Some(row[i - 1].id) };
            let exp_next = row.get(i + 1).map(|x| x.id);
            if n.prev != exp_prev || n.next != exp_next {
                return Err(format!("interior page {} (depth {lvl}): sibling links prev={:?} next={:?}, key order says prev={:?} next={:?}", n.id, n.prev, n.next, exp_prev, exp_next));
            }
        }
    }
    let mut all: Vec<OKey> = vec![];
    for l in &leaves {
        all.extend(l.cells.iter().map(|c| okey(&c.key)));
    }
    for w in all.windows(2) {
        if w[0] >= w[1] {
            return Err(format!("keys across leaves not strictly increasing ({:?} then {:?})", w[0], w[1]));
        }
    }
    // every separator routes: keys below a separator's left subtree <= separator <= keys to its right
    let by_id: BTreeMap<u64, &axmosdb::verif::facade::btree::PageInfo> = d.pages.iter().map(|p| (p.id, p)).collect();
    fn range(id: u64, by_id: &BTreeMap<u64, &axmosdb::verif::facade::btree::PageInfo>, depth: usize) -> Option<(OKey, OKey)> {
        if depth > 40 {
            return None;
        }
        let p = by_id.get(&id)?;
        if p.is_leaf {
            let f = p.cells.first()?;
            let l = p.cells.last()?;
            return Some((okey(&f.key), okey(&l.key)));
        }
        let mut lo: Option<OKey> = None;
        let mut hi: Option<OKey> = None;
        let kids: Vec<u64> = p.cells.iter().filter_map(|c| c.left_child).chain(p.right_child).collect();
        for k in kids {
            if let Some((a, b)) = range(k, by_id, depth + 1) {
                lo = Some(match lo { Some(x) if x <= a => x, _ => a });
                hi = Some(match hi { Some(x) if x >= b => x, _ => b });
            }
        }
        lo.zip(hi)
    }
    for p in d.pages.iter().filter(|p| !p.is_leaf) {
        for (i, c) in p.cells.iter().enumerate() {
            let sep = okey(&c.key);
            if let Some(ch) = c.left_child {
                if let Some((_, mx)) = range(ch, &by_id, 0) {
                    if mx > sep {
                        return Err(format!("page {}: left subtree of separator {:?} holds the larger key {:?}", p.id, c.key, mx));
                    }
                }
            }
            let right = p.cells.get(i + 1).and_then(|n| n.left_child).or(p.right_child);
            if let Some(rc) = right {
                if let Some((mn, _)) = range(rc, &by_id, 0) {
                    if mn < sep {
                        return Err(format!("page {}: subtree right of separator {:?} holds the smaller key {:?}", p.id, c.key, mn));
                    }
                }
            }
        }
    }
    Ok(())
}

/// page-ownership audit (C11): every page of the file except page zero is a node of the tree,
/// a link of exactly one overflow chain, or a member of the free list - exactly once.
pub fn audit_pages(d: &Dump) -> Result<(), String> {
    if let Some(e) = &d.error {
        return Err(format!("tree walk failed: {e}"));
    }
    let mut owner: BTreeMap<u64, String> = BTreeMap::new();
    let mut claim = |p: u64, who: String| -> Result<(), String> {
        if p == 0 || p >= d.total_pages {
            return Err(format!("{who} refers to page {p} outside the file (total_pages {})", d.total_pages));
        }
        if let Some(prev) = owner.insert(p, who.clone()) {
            return Err(format!("page {p} has two owners: {prev} and {who}"));
        }
        Ok(())
    };
    for pg in &d.pages {
        claim(pg.id, format!("tree node (depth {})", pg.depth))?;
        for (i, c) in pg.cells.iter().enumerate() {
            // a divider in an interior page is a copy of a leaf cell including its overflow pointer
            // (open finding D32), so only leaf cells claim their chains
            if pg.is_leaf {
                for o in &c.overflow {
                    claim(*o, format!("overflow chain of page {} cell {}", pg.id, i))?;
                }
            }
        }
    }
    for (i, f) in d.free_list.iter().enumerate() {
        claim(*f, format!("free list entry #{i}"))?;
    }
    if d.free_list.first().copied() != d.free_head {
        return Err(format!("free list head {:?} but first entry {:?}", d.free_head, d.free_list.first()));
    }
    if d.free_list.last().copied() != d.free_tail {
        return Err(format!("free list tail recorded as {:?} but the list ends at {:?}", d.free_tail, d.free_list.last()));
    }
    for p in 1..d.total_pages {
        if !owner.contains_key(&p) {
            return Err(format!("page {p} has no owner: not in the tree, not in an overflow chain, not on the free list (leaked)"));
        }
    }
    Ok(())
}

pub fn run_case(case: &BtReplay, idx: u64) -> RunResult {
    let mut counters: BTreeMap<String, u64> = BTreeMap::new();
    let mut bump = |k: &str, n: u64| *counters.entry(k.to_string()).or_insert(0) += n;
    let dir = util::fresh_dir("e3b");
    let mut fp = 0xcbf29ce484222325u64;
    let cfg = DBConfig { page_size: case.page, cache_size: case.cache, pool_size: 1, num_siblings_per_side: case.siblings, min_keys_per_page: case.min_keys };
    let kind = match case.key_kind {
        0 => KeyKind::U64,
        1 => KeyKind::I64,
        _ => KeyKind::Text,
    };
    let mut viol: Option<Violation> = None;
    let mut tree = match Tree::create(&dir.join("t.axm"), cfg, kind) {
        Ok(t) => t,
        Err(e) => {
            return RunResult { idx, seed: case.seed, violation: Some(Violation { oracle: "O-map".into(), event: 0, detail: format!("create failed: {e}") }), counters, fingerprint: 0, steps: 0, replay: None, hazards: vec![] };
        }
    };
    let span = 4096i64;
    let mut model: BTreeMap<OKey, (Key, String)> = BTreeMap::new();
    let mut ctr = 0u64;
    let mut max_depth = 0usize;
    let check_pages = true;
    for (i, op) in case.events.iter().enumerate() {
        let mut payload = || {
            ctr += 1;
            let w = match case.mixed_sizes {
                0 => case.payload_len,
                // small sizes only / everything up to payload_len
                1 => [8usize, 24, 40, 104][(ctr as usize * 7 + i) % 4].min(case.payload_len.max(8)),
                _ => [8usize, 24, 104, 200, 400][(ctr as usize * 7 + i) % 5],
            };
            format!("{:0width$}", ctr, width = w)
        };
        let before_free;
        let before_total;
        let before_list: Vec<u64>;
        {
            let d0 = tree.dump();
            before_free = d0.free_list.len();
            before_total = d0.total_pages;
            before_list = d0.free_list.clone();
        }
        let mut mutated = true;
        let res: Result<(), String> = match op {
            BtOp::Insert(k) => {
                let key = mk_key(case.key_kind, *k, span);
                let p = payload();
                let exists = model.contains_key(&okey(&key));
                match tree.insert(&key, &p) {
                    Ok(()) if exists => Err("insert of an existing key succeeded".into()),
                    Ok(()) => {
                        model.insert(okey(&key), (key, p));
                        bump("inserts", 1);
                        Ok(())
                    }
                    Err(_) if exists => {
                        bump("duplicate_inserts_rejected", 1);
                        Ok(())
                    }
                    Err(e) => Err(format!("insert of a new key failed: {e}")),
                }
            }
            BtOp::Upsert(k) => {
                let key = mk_key(case.key_kind, *k, span);
                let p = payload();
                match tree.upsert(&key, &p) {
                    Ok(()) => {
                        model.insert(okey(&key), (key, p));
                        bump("upserts", 1);
                        Ok(())
                    }
                    Err(e) => Err(format!("upsert failed: {e}")),
                }
            }
            BtOp::Update(k) => {
                let key = mk_key(case.key_kind, *k, span);
                let p = payload();
                let exists = model.contains_key(&okey(&key));
                match tree.update(&key, &p) {
                    Ok(()) if !exists => Err("update of a missing key succeeded".into()),
                    Ok(()) => {
                        model.insert(okey(&key), (key, p));
                        bump("updates", 1);
                        Ok(())
                    }
                    Err(_) if !exists => Ok(()),
                    Err(e) => Err(format!("update of an existing key failed: {e}")),
                }
            }
            BtOp::Remove(k) => {
                let key = mk_key(case.key_kind, *k, span);
                let exists = model.contains_key(&okey(&key));
                match tree.remove(&key) {
                    Ok(()) if !exists => Err("removal of a missing key succeeded".into()),
                    Ok(()) => {
                        model.remove(&okey(&key));
                        bump("removes", 1);
                        Ok(())
                    }
                    Err(_) if !exists => Ok(()),
                    Err(e) => Err(format!("removal of an existing key failed: {e}")),
                }
            }
            BtOp::Get(k) => {
                mutated = false;
                let key = mk_key(case.key_kind, *k, span);
                let want = model.get(&okey(&key)).map(|x| x.1.clone());
                match tree.get(&key) {
                    Ok(got) if got == want => {
                        bump("lookups", 1);
                        Ok(())
                    }
                    Ok(got) => Err(format!("lookup of {:?}: tree has {:?}, model has {:?}", key, got.map(|s| s.len()), want.map(|s| s.len()))),
                    Err(e) => Err(format!("lookup failed: {e}")),
                }
            }
            BtOp::Scan(fwd) => {
                mutated = false;
                match tree.scan(*fwd) {
                    Ok(got) => {
                        let mut want: Vec<(Key, String)> = model.values().cloned().collect();
                        if !*fwd {
                            want.reverse();
                        }
                        bump("scans", 1);
                        if got != want {
                            let pos = got.iter().zip(want.iter()).position(|(a, b)| a != b);
                            Err(format!("{} scan returns {} entries, model has {}; first difference at position {:?}", if *fwd { "forward" } else { "backward" }, got.len(), want.len(), pos))
                        } else {
                            Ok(())
                        }
                    }
                    Err(e) => Err(format!("scan failed: {e}")),
                }
            }
            BtOp::Checkpoint => {
                mutated = false;
                bump("checkpoints", 1);
                tree.checkpoint().map_err(|e| format!("checkpoint failed: {e}"))
            }
        };
        util::fnv(&mut fp, format!("{op:?} {}", res.is_ok()).as_bytes());
        if let Err(e) = res {
            if e.contains("out of memory") && case.cache <= 32 {
                // the one permitted failure: an explicit out-of-memory error from a cache too small to hold
                // one operation (a rebalance keeps the path, up to 2 x siblings + 1 nodes per level and their
                // frontiers latched until it is done: three levels with 3 siblings per side need more than 24
                // frames). C10 is quantified over page size, minimum keys and siblings, not over cache sizes;
                // no verdict on anything after the error
                bump("runs_ended_by_permitted_oom", 1);
                break;
            }
            viol = Some(Violation { oracle: "O-map".into(), event: i, detail: format!("op {i} {op:?}: {e}") });
            break;
        }
        let p = util::take_panics();
        if !p.is_empty() {
            viol = Some(Violation { oracle: "O-map".into(), event: i, detail: format!("op {i} {op:?}: panic {}", p.join(" | ")) });
            break;
        }
        if mutated {
            let d = tree.dump();
            if std::env::var("AXSIM_BTDUMP").is_ok() {
                // diagnostic only: shape of the interior levels after every mutation of the last ops
                if i + 6 >= case.events.len() || audit_structure(&d).is_err() {
                    eprintln!("--- after op {i} {op:?}");
                    for p in d.pages.iter().filter(|p| !p.is_leaf || p.depth <= 1) {
                        let keys: Vec<String> = p.cells.iter().map(|c| format!("{:?}->{:?}", c.key, c.left_child)).collect();
                        eprintln!("  page {} depth {} leaf {} prev {:?} next {:?} right {:?} cells {}", p.id, p.depth, p.is_leaf, p.prev, p.next, p.right_child, keys.join(" "));
                    }
                    for p in d.pages.iter().filter(|p| p.is_leaf) {
                        eprintln!("  leaf {} prev {:?} next {:?} n {} first {:?} last {:?}", p.id, p.prev, p.next, p.cells.len(), p.cells.first().map(|c| &c.key), p.cells.last().map(|c| &c.key));
                    }
                }
            }
            if let Err(e) = audit_structure(&d) {
                viol = Some(Violation { oracle: "O-structure".into(), event: i, detail: format!("after op {i} {op:?}: {e}") });
                break;
            }
            // the keys the structure holds are the model's
            let have: Vec<OKey> = d.pages.iter().filter(|p| p.is_leaf).flat_map(|p| p.cells.iter().map(|c| okey(&c.key))).collect();
            let want: Vec<OKey> = model.keys().cloned().collect();
            if have != want {
                viol = Some(Violation { oracle: "O-map".into(), event: i, detail: format!("after op {i} {op:?}: leaves hold {} keys, model {}", have.len(), want.len()) });
                break;
            }
            max_depth = max_depth.max(d.pages.iter().map(|p| p.depth).max().unwrap_or(0));
            if check_pages {
                if let Err(e) = audit_pages(&d) {
                    viol = Some(Violation { oracle: "O-pages".into(), event: i, detail: format!("after op {i} {op:?}: {e}") });
                    break;
                }
                // The free list is a queue (pages are taken at its head and released at its tail). If the
                // list after the operation still starts with a non-empty tail piece of the list before it,
                // those pages were free during the whole operation, so no allocation may have grown the
                // file. (Nothing is concluded when the old list was used up: later releases refill it.)
                let survived = (0..before_list.len()).any(|k| d.free_list.len() >= before_list.len() - k && d.free_list[..before_list.len() - k] == before_list[k..]);
                if d.total_pages > before_total && before_free > 0 && !d.free_list.is_empty() && !survived {
                    bump("file_grew_after_free_list_was_used_up", 1);
                }
                if d.total_pages > before_total && survived {
                    viol = Some(Violation { oracle: "O-pages".into(), event: i, detail: format!("after op {i} {op:?}: the file grew from {before_total} to {} pages although the free list held {before_free} pages before and still holds {}", d.total_pages, d.free_list.len()) });
                    break;
                }
                if d.free_list.len() < before_free {
                    bump("allocations_from_free_list", 1);
                }
                if d.free_list.len() > before_free {
                    bump("pages_freed", (d.free_list.len() - before_free) as u64);
                }
            }
            bump("audits", 1);
        }
    }
    bump(&format!("depth_{max_depth}"), 1);
    if max_depth >= 1 {
        bump("runs_with_splits", 1);
    }
    if case.cache <= 24 {
        bump("runs_with_tiny_cache", 1);
    }
    drop(tree);
    let _ = std::fs::remove_dir_all(&dir);
    let _ = util::take_panics();
    let mut res = RunResult { idx, seed: case.seed, violation: viol.clone(), counters, fingerprint: fp, steps: case.events.len() as u64, replay: None, hazards: vec![] };
    if viol.is_some() {
        let mut c = case.clone();
        c.violation = viol;
        res.replay = Some(serde_json::to_value(&c).unwrap());
    }
    res
}

pub fn sample_of(case: &BtReplay) -> serde_json::Value {
    serde_json::json!({"seed": case.seed, "page": case.page, "cache": case.cache, "min_keys": case.min_keys, "siblings": case.siblings, "key_kind": case.key_kind, "payload_len": case.payload_len, "ops": case.events.iter().take(40).map(|o| format!("{o:?}")).collect::<Vec<_>>(), "n_ops": case.events.len()})
}
