//! Hostile SQL for C16: byte strings, token soups, truncated / spliced valid statements,
//! nesting ramps, and well-formed statements that are ill-typed or name unknown objects.
//! Constructs whose panic site is an open known finding are switched off by guards.
use crate::util::Rng;

const KEYWORDS: &[&str] = &[
    "SELECT", "FROM", "WHERE", "AND", "OR", "NOT", "LIKE", "IN", "BETWEEN", "IS", "NULL", "TRUE", "FALSE", "CASE", "WHEN", "THEN", "ELSE", "END", "ORDER", "BY", "GROUP", "HAVING", "ASC", "DESC", "INSERT", "INTO",
    "VALUES", "UPDATE", "SET", "DELETE", "CREATE", "TABLE", "DROP", "LIMIT", "OFFSET", "JOIN", "INNER", "OUTER", "FULL", "LEFT", "RIGHT", "CROSS", "EXISTS", "ANY", "ALL", "SOME", "ON", "AS", "DISTINCT", "UNION",
    "INTERSECT", "EXCEPT", "WITH", "RECURSIVE", "PRIMARY", "KEY", "FOREIGN", "REFERENCES", "UNIQUE", "INDEX", "VIEW", "PROCEDURE", "FUNCTION", "TRIGGER", "DATABASE", "SCHEMA", "GRANT", "REVOKE", "COMMIT", "ROLLBACK",
    "TRANSACTION", "BEGIN", "CONSTRAINT", "DEFAULT", "CHECK", "ALTER", "ADD", "COLUMN", "MODIFY", "RENAME", "TO", "LOCK", "IF",
];
const PUNCT: &[&str] = &["(", ")", ",", ";", "*", "=", "<", ">", "<>", "<=", ">=", "+", "-", ".", "'", "''", "\"", "!=", "||", ":", "?", "@", "#", "--", "/*", "*/"];

pub struct World {
    /// (table, [(column, is_text)])
    pub tables: Vec<(String, Vec<(String, bool)>)>,
}

fn ident(rng: &mut Rng, w: &World) -> String {
    match rng.below(6) {
        0 => "nosuch".into(),
        1 => "t9".into(),
        2 if !w.tables.is_empty() => rng.pick(&w.tables).0.clone(),
        3 | 4 if !w.tables.is_empty() => {
            let t = rng.pick(&w.tables);
            rng.pick(&t.1).0.clone()
        }
        _ => format!("x{}", rng.below(5)),
    }
}

fn literal(rng: &mut Rng) -> String {
    match rng.below(10) {
        0 => "NULL".into(),
        1 => "0".into(),
        2 => "-1".into(),
        3 => "2147483648".into(),
        4 => "99999999999999999999999".into(),
        5 => "'abc'".into(),
        6 => "''".into(),
        7 => "1.5".into(),
        8 => "'é✓'".into(),
        _ => rng.below(1000).to_string(),
    }
}

/// A valid statement against the world (used as raw material for truncation and splicing).
fn valid(rng: &mut Rng, w: &World) -> String {
    if w.tables.is_empty() {
        return "SELECT 1".into();
    }
    let (t, cols) = rng.pick(&w.tables).clone();
    let c = rng.pick(&cols).clone();
    match rng.below(5) {
        0 => format!("SELECT * FROM {t} WHERE {} = {}", c.0, if c.1 { "'s00101'".to_string() } else { "101".to_string() }),
        1 => format!("SELECT {} FROM {t} ORDER BY {} LIMIT 3", c.0, c.0),
        2 => format!("SELECT COUNT(*) FROM {t}"),
        3 => format!("DELETE FROM {t} WHERE {} < {}", c.0, if c.1 { "'a'".to_string() } else { "-5".to_string() }),
        _ => format!("SELECT {} FROM {t} WHERE {} IS NULL OR {} <> {}", c.0, c.0, c.0, if c.1 { "'q'".to_string() } else { "7".to_string() }),
    }
}

/// Guards of open findings in hostile statements: none at present (D18a, D18f and D35 were repaired).
pub fn guards() -> Vec<String> {
    vec![]
}

pub fn chaos_sql(rng: &mut Rng, w: &World, guards: &[String]) -> String {
    let has = |g: &str| guards.iter().any(|x| x == g);
    if rng.chance(15) {
        if let Some(s) = exotic(rng, w, &has) {
            return s;
        }
    }
    for _ in 0..20 {
        let s = chaos_once(rng, w);
        let u = s.to_uppercase();
        // operators are looked for outside string literals ('%' inside a LIKE pattern is not a modulo)
        let mut code = String::new();
        let mut in_str = false;
        for ch in u.chars() {
            if ch == '\'' {
                in_str = !in_str;
            } else if !in_str {
                code.push(ch);
            }
        }
        if has("division_or_modulo_by_zero") && (code.contains('/') || code.contains('%')) {
            continue;
        }
        if has("case_expression") && u.contains("CASE") {
            continue;
        }
        if has("having_clause") && u.contains("HAVING") {
            continue;
        }
        if has("qualified_star") && u.contains(".*") {
            continue;
        }
        if has("subquery_expression") && (u.matches("SELECT").count() > 1 || u.contains("EXISTS")) {
            continue;
        }
        if has("insert_select_from_same_table") && u.contains("INSERT") && u.contains("SELECT") {
            continue;
        }
        return s;
    }
    "SELECT".into()
}

/// Well-formed statements using constructs that are (or were) panic sites; each is emitted
/// only while its guard is not active.
fn exotic(rng: &mut Rng, w: &World, has: &dyn Fn(&str) -> bool) -> Option<String> {
    if w.tables.is_empty() {
        return None;
    }
    let (t, cols) = rng.pick(&w.tables).clone();
    let nums: Vec<&(String, bool)> = cols.iter().filter(|c| !c.1).collect();
    let c = if nums.is_empty() { cols[0].0.clone() } else { rng.pick(&nums).0.clone() };
    let mut cands: Vec<String> = vec![];
    if !has("division_or_modulo_by_zero") {
        cands.push(format!("SELECT {c} / 0 FROM {t}"));
        cands.push(format!("SELECT {c} % 0 FROM {t}"));
        cands.push(format!("SELECT * FROM {t} WHERE {c} / ({c} - {c}) = 1"));
    }
    if !has("case_expression") {
        cands.push(format!("SELECT CASE WHEN {c} > 100 THEN 1 ELSE 0 END FROM {t}"));
    }
    if !has("having_clause") {
        cands.push(format!("SELECT {c}, COUNT(*) FROM {t} GROUP BY {c} HAVING COUNT(*) > 1"));
    }
    if !has("qualified_star") {
        cands.push(format!("SELECT {t}.* FROM {t}"));
    }
    if !has("subquery_expression") {
        cands.push(format!("SELECT (SELECT 1) FROM {t}"));
        cands.push(format!("SELECT * FROM {t} WHERE {c} IN (SELECT {c} FROM {t})"));
        cands.push(format!("SELECT * FROM {t} WHERE EXISTS (SELECT 1 FROM {t})"));
    }
    if !has("insert_select_from_same_table") {
        cands.push(format!("INSERT INTO {t} SELECT * FROM {t}"));
    }
    if cands.is_empty() { None } else { Some(rng.pick(&cands).clone()) }
}

fn like_query(rng: &mut Rng, w: &World) -> Option<String> {
    let (t, cols) = rng.pick(&w.tables).clone();
    let tc = cols.iter().find(|c| c.1)?.0.clone();
    // wildcard, escape and literal characters in any arrangement
    let n = rng.range(1, 6);
    let pat: String = (0..n).map(|_| *rng.pick(&["%", "%", "_", "\\%", "\\_", "\\", "s", "0", "x"])).collect();
    Some(format!("SELECT * FROM {t} WHERE {tc} {}LIKE '{pat}'", if rng.chance(30) { "NOT " } else { "" }))
}

fn call_query(rng: &mut Rng, w: &World) -> String {
    let (t, cols) = rng.pick(&w.tables).clone();
    let c = rng.pick(&cols).clone();
    let f = *rng.pick(&["ABS", "SQRT", "CEIL", "FLOOR", "ROUND", "UPPER", "LOWER", "LENGTH", "COALESCE", "CONCAT", "TRIM", "SUBSTR", "POWER", "MOD"]);
    let nargs = rng.below(4);
    let args: Vec<String> = (0..nargs).map(|_| match rng.below(4) { 0 => c.0.clone(), 1 => "NULL".into(), 2 => "'t'".into(), _ => "2".into() }).collect();
    format!("SELECT {f}({}) FROM {t}", args.join(", "))
}

fn chaos_once(rng: &mut Rng, w: &World) -> String {
    if !w.tables.is_empty() {
        match rng.below(14) {
            0 => {
                if let Some(q) = like_query(rng, w) {
                    return q;
                }
            }
            1 => return call_query(rng, w),
            _ => {}
        }
    }
    match rng.below(12) {
        0 => {
            let n = rng.below(60) as usize;
            let bytes: Vec<u8> = (0..n).map(|_| rng.below(256) as u8).collect();
            String::from_utf8_lossy(&bytes).into_owned()
        }
        1 | 2 => {
            let n = rng.range(1, 25);
            (0..n)
                .map(|_| match rng.below(10) {
                    0..=4 => rng.pick(KEYWORDS).to_string(),
                    5 | 6 => ident(rng, w),
                    7 => literal(rng),
                    _ => rng.pick(PUNCT).to_string(),
                })
                .collect::<Vec<_>>()
                .join(" ")
        }
        3 => {
            let v = valid(rng, w);
            let cut = rng.below(v.chars().count() as u64 + 1) as usize;
            v.chars().take(cut).collect()
        }
        4 => {
            let a = valid(rng, w);
            let b = valid(rng, w);
            let ca = rng.below(a.len() as u64 + 1) as usize;
            let cb = rng.below(b.len() as u64 + 1) as usize;
            format!("{}{}", a.chars().take(ca).collect::<String>(), b.chars().skip(cb).collect::<String>())
        }
        5 => {
            // depth ramps: nesting and operator chains, up to several thousand levels (fix for D18f:
            // the parser refuses expression trees deeper than 200 levels)
            let n = if rng.chance(30) { rng.range(200, 6000) } else { rng.range(1, 200) } as usize;
            match rng.below(6) {
                0 => format!("SELECT {}1{}", "(".repeat(n), ")".repeat(n)),
                1 => format!("SELECT * FROM {} WHERE {}x0 = 1", ident(rng, w), "NOT ".repeat(n)),
                2 => format!("SELECT * FROM {} WHERE {}", ident(rng, w), vec!["x0 = 1"; n].join(if rng.chance(50) { " AND " } else { " OR " })),
                3 => format!("SELECT 1{} FROM {}", " + 1".repeat(n), ident(rng, w)),
                4 => format!("SELECT * FROM {} WHERE x0 IN ({}1{})", ident(rng, w), "SELECT 1 WHERE 1 IN (".repeat(n / 20 + 1), ")".repeat(n / 20 + 1)),
                _ => format!("SELECT {}1", "-".repeat(n)),
            }
        }
        6 if !w.tables.is_empty() => {
            // ill-typed DML
            let (t, cols) = rng.pick(&w.tables).clone();
            match rng.below(6) {
                0 => format!("INSERT INTO {t} VALUES ({})", (0..cols.len()).map(|_| "'txt'").collect::<Vec<_>>().join(", ")),
                1 => format!("INSERT INTO {t} VALUES ({})", (0..cols.len() + 2).map(|_| literal(rng)).collect::<Vec<_>>().join(", ")),
                2 => format!("INSERT INTO {t} ({}) VALUES (1)", ident(rng, w)),
                3 => format!("UPDATE {t} SET {} = {}", ident(rng, w), literal(rng)),
                4 => format!("DELETE FROM {t} WHERE {} = {}", ident(rng, w), literal(rng)),
                _ => format!("INSERT INTO {t} VALUES ({})", (0..cols.len()).map(|_| "99999999999999999999999").collect::<Vec<_>>().join(", ")),
            }
        }
        7 if !w.tables.is_empty() => {
            // ill-typed or exotic queries
            let (t, cols) = rng.pick(&w.tables).clone();
            let c = rng.pick(&cols).clone();
            match rng.below(15) {
                0 => format!("SELECT {} + 'x' FROM {t}", c.0),
                1 => format!("SELECT * FROM {t} WHERE {} LIKE NULL", c.0),
                2 => format!("SELECT * FROM {t} WHERE {} = 'abc' AND {} = 5", c.0, c.0),
                3 => format!("SELECT * FROM {t} ORDER BY nosuch"),
                4 => format!("SELECT * FROM {t} LIMIT -1"),
                5 => format!("SELECT {}, COUNT(*) FROM {t} GROUP BY {}", c.0, c.0),
                6 => format!("SELECT ABS('x'), UPPER({}) FROM {t}", c.0),
                7 => format!("SELECT * FROM {t} a JOIN {t} b ON a.{} = b.{}", c.0, c.0),
                8 => format!("SELECT DISTINCT {} FROM {t} ORDER BY {} DESC LIMIT 2 OFFSET 100", c.0, c.0),
                9 => format!("SELECT * FROM {t} WHERE {} BETWEEN 'a' AND 5", c.0),
                10 => format!("SELECT * FROM {t} WHERE {} IN (1, 'a', NULL)", c.0),
                11 => {
                    // LIKE / NOT LIKE with wildcard, escape and literal characters in any arrangement
                    let n = rng.range(1, 7);
                    let pat: String = (0..n).map(|_| *rng.pick(&["%", "%", "_", "\\%", "\\_", "\\", "s", "0", "x", "a"])).collect();
                    let tc = cols.iter().find(|c| c.1).map(|c| c.0.clone()).unwrap_or(c.0.clone());
                    format!("SELECT * FROM {t} WHERE {tc} {}LIKE '{pat}'", if rng.chance(30) { "NOT " } else { "" })
                }
                12 | 13 => {
                    // scalar functions with every arity from none to three
                    let f = *rng.pick(&["ABS", "SQRT", "CEIL", "FLOOR", "ROUND", "UPPER", "LOWER", "LENGTH", "COALESCE", "CONCAT", "TRIM", "SUBSTR", "POWER", "MOD"]);
                    let nargs = rng.below(4);
                    let args: Vec<String> = (0..nargs).map(|_| match rng.below(4) { 0 => c.0.clone(), 1 => "NULL".into(), 2 => "'t'".into(), _ => "2".into() }).collect();
                    format!("SELECT {f}({}) FROM {t}", args.join(", "))
                }
                _ => format!("SELECT MAX({}), MIN({}), SUM({}), AVG({}) FROM {t}", c.0, c.0, c.0, c.0),
            }
        }
        8 => format!("SELECT '{}'", "z".repeat(rng.range(1000, 100_000) as usize)),
        9 => {
            // DDL with problems
            match rng.below(6) {
                0 => "CREATE TABLE".into(),
                1 => "CREATE TABLE tz (id BIGINT, id INT)".into(),
                2 => "CREATE TABLE tz ()".into(),
                3 => format!("CREATE TABLE tz (id NOSUCHTYPE)"),
                4 => format!("DROP TABLE {}", ident(rng, w)),
                _ => format!("CREATE UNIQUE INDEX ixz ON {} (nosuch)", ident(rng, w)),
            }
        }
        10 => {
            let v = valid(rng, w);
            format!("{v}; {v}")
        }
        _ => {
            let v = valid(rng, w);
            // duplicate a random slice inside the statement
            let n = v.len();
            if n < 4 {
                return v;
            }
            let a = rng.below(n as u64 - 1) as usize;
            let b = a + 1 + rng.below((n - a - 1) as u64) as usize;
            let (a, b) = (floor_char(&v, a), floor_char(&v, b));
            format!("{}{}{}", &v[..b], &v[a..b], &v[b..])
        }
    }
}

fn floor_char(s: &str, mut i: usize) -> usize {
    while i > 0 && !s.is_char_boundary(i) {
        i -= 1;
    }
    i
}
