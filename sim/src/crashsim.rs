//! E2: crash simulator. A history runs once against directory A while the I/O tap records
//! every file mutation, totally ordered with "event started / acknowledged" markers. Then
//! for EVERY prefix of that log the on-disk image "exactly these mutations reached the
//! files" is rebuilt in a fresh directory, opened with the real `Database::open`
//! (recovery), and judged against the model state implied by the acknowledgements that
//! precede the crash point.
use crate::eng::{Cfg, DB_FILE, Eng, ErrClass, Out};
use crate::run::{RunResult, SqlReplay};
use crate::sqlsim::{Sim, Violation};
use crate::stmt::Event;
use crate::util;
use axmosdb::verif::io as tap;
use serde::{Deserialize, Serialize};
use std::collections::{BTreeMap, BTreeSet};
use std::path::Path;

pub type State = BTreeMap<String, Vec<Vec<String>>>;

#[derive(Clone, Default)]
pub struct Image {
    pub files: BTreeMap<String, Vec<u8>>,
}

impl Image {
    pub fn apply(&mut self, e: &tap::Ev) {
        match e.kind {
            tap::Kind::Create | tap::Kind::SetLen => {
                self.files.insert(e.file.clone(), vec![]);
            }
            tap::Kind::Write => {
                let f = self.files.entry(e.file.clone()).or_default();
                let end = e.off as usize + e.data.len();
                if f.len() < end {
                    f.resize(end, 0);
                }
                f[e.off as usize..end].copy_from_slice(&e.data);
            }
            _ => {}
        }
    }
    pub fn write_out(&self, dir: &Path) {
        let _ = std::fs::remove_dir_all(dir);
        std::fs::create_dir_all(dir).unwrap();
        for (n, d) in &self.files {
            std::fs::write(dir.join(n), d).unwrap();
        }
    }
}

pub fn is_mutation(e: &tap::Ev) -> bool {
    matches!(e.kind, tap::Kind::Create | tap::Kind::SetLen | tap::Kind::Write)
}

/// What the recovered database contains: table -> rows, `None` = table does not exist.
pub type Observed = BTreeMap<String, Option<Vec<Vec<String>>>>;

pub fn observe(e: &Eng, tables: &BTreeSet<String>) -> Result<Observed, String> {
    let mut out = Observed::new();
    for t in tables {
        match e.exec(&format!("SELECT * FROM {t}")) {
            Out::Rows(r) => {
                out.insert(t.clone(), Some(r));
            }
            Out::Err(ErrClass::NotFound, _) => {
                out.insert(t.clone(), None);
            }
            o => return Err(format!("table {t} unreadable after recovery: {}", o.short())),
        }
    }
    Ok(out)
}

fn matches_state(obs: &Observed, st: &State) -> bool {
    obs.iter().all(|(t, rows)| match (rows, st.get(t)) {
        (None, None) => true,
        (Some(r), Some(s)) => r == s,
        _ => false,
    })
}

fn show_obs(o: &Observed) -> String {
    o.iter()
        .map(|(t, r)| match r {
            None => format!("{t}: <absent>"),
            Some(r) => format!("{t}: {}", Out::Rows(r.clone()).short()),
        })
        .collect::<Vec<_>>()
        .join("; ")
}

fn show_state(s: &State) -> String {
    if s.is_empty() {
        return "<no tables>".into();
    }
    s.iter().map(|(t, r)| format!("{t}: {}", Out::Rows(r.clone()).short())).collect::<Vec<_>>().join("; ")
}

#[derive(Clone, Debug, PartialEq)]
pub enum Verdict {
    Ok,
    /// something that was certainly acknowledged is missing (C01)
    Lost(String),
    /// something no acknowledged or in-flight commit wrote is visible, or a transaction is visible in part (C02)
    Extra(String),
}

/// Judge an observation against the state acknowledged before the crash (`a`) and the state
/// after the single in-flight event (`b`).
pub fn judge(obs: &Observed, a: &State, b: &State) -> Verdict {
    if matches_state(obs, a) || matches_state(obs, b) {
        return Verdict::Ok;
    }
    // rows / tables that both candidate states contain must be there
    for (t, rows) in obs {
        let (ra, rb) = (a.get(t), b.get(t));
        match rows {
            None => {
                if ra.is_some() && rb.is_some() {
                    return Verdict::Lost(format!("table {t} of an acknowledged commit is gone"));
                }
            }
            Some(r) => {
                if let (Some(ra), Some(rb)) = (ra, rb) {
                    for row in ra {
                        if rb.contains(row) && !r.contains(row) {
                            return Verdict::Lost(format!("row ({}) of table {t} from an acknowledged commit is missing", row.join(",")));
                        }
                    }
                }
            }
        }
    }
    Verdict::Extra(format!(
        "recovered contents match neither the acknowledged state nor that state plus the in-flight commit: engine has {}; acknowledged: {}; with in-flight: {}",
        show_obs(obs),
        show_state(a),
        show_state(b)
    ))
}

#[derive(Clone, Debug, Default, Serialize, Deserialize)]
pub struct CrashOpts {
    /// also enumerate crash points inside recovery itself (C08)
    pub nested: bool,
    /// at most this many second-level points per first-level point
    pub nested_cap: usize,
    /// which verdict kinds this property reports
    pub report_lost: bool,
    pub report_extra: bool,
    pub report_open: bool,
    /// C08 extras: smoke transaction, reopen-changes-nothing
    pub usability: bool,
}

pub fn opts_for(prop: &str) -> CrashOpts {
    match prop {
        "C01" => CrashOpts { report_lost: true, report_open: true, ..Default::default() },
        "C02" => CrashOpts { report_extra: true, report_open: true, ..Default::default() },
        _ => CrashOpts { nested: true, nested_cap: 24, report_open: true, usability: true, report_lost: false, report_extra: false },
    }
}

fn classify_point(evs: &[tap::Ev], k: usize) -> String {
    // describe the last mutation before the crash
    let e = &evs[k - 1];
    let what = match e.kind {
        tap::Kind::Create => "create".to_string(),
        tap::Kind::SetLen => "truncate".to_string(),
        tap::Kind::Write => format!("write off={} len={}", e.off, e.data.len()),
        _ => "?".into(),
    };
    format!("{} {}", if e.file == "axmos.log" { "log" } else { "db" }, what)
}

pub struct CrashRun {
    pub violation: Option<Violation>,
    pub counters: BTreeMap<String, u64>,
    pub fingerprint: u64,
    pub steps: u64,
    pub trace: Vec<String>,
}

fn bump(c: &mut BTreeMap<String, u64>, k: &str, n: u64) {
    *c.entry(k.to_string()).or_insert(0) += n;
}

fn open_guarded(dir: &Path, cfg: Cfg) -> Result<Eng, String> {
    let r = std::panic::catch_unwind(|| Eng::open(dir, cfg));
    match r {
        Ok(Ok(e)) => {
            let p = util::take_panics();
            if !p.is_empty() {
                e.leak();
                return Err(format!("engine thread panicked during recovery: {}", p.join(" | ")));
            }
            Ok(e)
        }
        Ok(Err(m)) => {
            let p = util::take_panics();
            Err(if p.is_empty() { m } else { format!("{m} [panics: {}]", p.join(" | ")) })
        }
        Err(_) => {
            let p = util::take_panics();
            Err(format!("Database::open panicked: {}", p.join(" | ")))
        }
    }
}

/// Run the history once with the tap on, then enumerate every crash point.
pub fn run_crash_case(case: &SqlReplay, opts: &CrashOpts) -> CrashRun {
    let mut out = CrashRun { violation: None, counters: BTreeMap::new(), fingerprint: 0, steps: 0, trace: vec![] };
    let dir_a = util::fresh_dir("e2a");
    tap::start(&dir_a);
    let mut sim = match Sim::new(&dir_a, case.cfg) {
        Ok(s) => s,
        Err(e) => {
            tap::stop();
            out.violation = Some(Violation { oracle: "O-open".into(), event: 0, detail: format!("Database::create failed: {e}") });
            return out;
        }
    };
    sim.allow_oom = case.allow_oom;
    tap::mark("created");
    // states[i] = committed state after i events were acknowledged
    let mut states: Vec<State> = vec![sim.model.committed_state()];
    let mut live_violation = None;
    // page-cache eviction counter after each event (reach probe): tells steals from the write-through of page deallocation
    let mut evictions_after: Vec<u64> = vec![];
    for (i, ev) in case.events.iter().enumerate() {
        tap::mark(&format!("s {i}"));
        let r = sim.step(i, ev);
        tap::mark(&format!("a {i}"));
        evictions_after.push(sim.eng.cache_stats().2);
        states.push(sim.model.committed_state());
        if sim.halted {
            break;
        }
        if let Err(v) = r {
            // the history itself misbehaved before any crash: that is E1's business; stop here
            live_violation = Some(v);
            break;
        }
    }
    let log = tap::stop();
    let n_events_run = states.len() - 1;
    let stats = sim.finish(); // closes the handle; its shutdown writes are no longer recorded
    out.counters = stats.counters;
    out.fingerprint = stats.fingerprint;
    out.trace = stats.trace;
    let _ = std::fs::remove_dir_all(&dir_a);
    if let Some(v) = live_violation {
        // reported as a precondition failure of this run, not as a crash violation
        bump(&mut out.counters, "history_failed_before_crash_enumeration", 1);
        out.trace.push(format!("history stopped at event {}: {} {}", v.event, v.oracle, v.detail));
    }
    // table names ever present in any state
    let mut tables: BTreeSet<String> = BTreeSet::new();
    for s in &states {
        tables.extend(s.keys().cloned());
    }
    // io fingerprint: (file, kind, off, len)
    for e in &log {
        if std::env::var("AXSIM_IOLOG").is_ok() {
            eprintln!("IO {} {:?} {} {} {}", e.file, e.kind, e.off, e.data.len(), e.note); // diagnostic only
        }
        if is_mutation(e) {
            util::fnv(&mut out.fingerprint, format!("{} {:?} {} {}\n", e.file, e.kind, e.off, e.data.len()).as_bytes());
        }
    }
    let created_at = log.iter().position(|e| e.kind == tap::Kind::Mark && e.note == "created").unwrap_or(0);
    let mut img = Image::default();
    let mut acked = 0usize;
    let dir_b = util::fresh_dir("e2b");
    let dir_c = util::fresh_dir("e2c");
    // D22b window: inside a checkpoint, from its first db-file write up to the log truncation
    let skip_ckpt_window = case.guards.iter().any(|g| g == "crash_inside_checkpoint_page_writes");
    let mut in_window = false;
    // S1: once an evicted dirty page has been written back outside a checkpoint ("steal"), crash
    // points are not judged until the next checkpoint has truncated the log
    let skip_after_steal = case.guards.iter().any(|g| g == "crash_after_stolen_page");
    let mut stolen = false;
    let mut inflight: Option<usize> = None;
    // crash points are judged only while the history itself agreed with the model
    let limit = if out.counters.contains_key("history_failed_before_crash_enumeration") { n_events_run.saturating_sub(1) } else { usize::MAX };
    for k in 1..=log.len() {
        let e = &log[k - 1];
        if e.kind == tap::Kind::Mark {
            if let Some(x) = e.note.strip_prefix("a ") {
                acked = x.parse::<usize>().unwrap() + 1;
                inflight = None;
            } else if let Some(x) = e.note.strip_prefix("s ") {
                inflight = Some(x.parse::<usize>().unwrap());
                if inflight.unwrap() >= limit {
                    break;
                }
                in_window = false;
            }
            continue;
        }
        if !is_mutation(e) {
            continue;
        }
        img.apply(e);
        if skip_after_steal {
            let ckpt_or_drop = inflight.map(|j| matches!(&case.events[j], Event::Flush | Event::Vacuum | Event::Reopen(_) | Event::Auto(crate::stmt::Stmt::DropTable { .. }))).unwrap_or(false);
            let evicted_here = inflight.map(|j| evictions_after.get(j).copied().unwrap_or(0) > if j == 0 { 0 } else { evictions_after.get(j - 1).copied().unwrap_or(0) }).unwrap_or(false);
            if e.file != "axmos.log" && e.kind == tap::Kind::Write && !ckpt_or_drop && evicted_here && k > created_at {
                if !stolen {
                    bump(&mut out.counters, "eviction_write_backs_before_commit", 1);
                }
                stolen = true;
            }
            if e.file == "axmos.log" && e.kind == tap::Kind::SetLen {
                stolen = false;
            }
            if stolen {
                bump(&mut out.counters, "crash_points_after_stolen_page_not_judged", 1);
                continue;
            }
        }
        if skip_ckpt_window {
            let ckpt = inflight.map(|j| matches!(case.events[j], Event::Flush | Event::Vacuum | Event::Reopen(_))).unwrap_or(false);
            if ckpt && e.file != "axmos.log" && e.kind == tap::Kind::Write {
                in_window = true;
            }
            if e.file == "axmos.log" && e.kind == tap::Kind::SetLen {
                if in_window {
                    in_window = false;
                }
            }
            if in_window {
                bump(&mut out.counters, "crash_points_in_checkpoint_window_not_judged", 1);
                continue;
            }
        }
        if case.guards.iter().any(|g| g == "crash_inside_drop_table") {
            let dropping = inflight.map(|j| matches!(&case.events[j], Event::Auto(crate::stmt::Stmt::DropTable { .. }))).unwrap_or(false);
            if dropping {
                bump(&mut out.counters, "crash_points_inside_drop_table_not_judged", 1);
                continue;
            }
        }
        if k <= created_at {
            bump(&mut out.counters, "crash_points_inside_create_not_judged", 1);
            continue;
        }
        if acked > n_events_run {
            break;
        }
        out.steps += 1;
        let class = classify_point(&log, k);
        bump(&mut out.counters, "crash_points", 1);
        bump(&mut out.counters, &format!("crash_in:{}", class.split(" off").next().unwrap_or("?")), 1);
        if let Some(j) = inflight {
            let kind = match &case.events[j] {
                Event::Flush => "checkpoint",
                Event::Vacuum => "vacuum",
                Event::Reopen(_) => "close_or_recovery",
                Event::Commit(_) => "session_commit",
                Event::Auto(_) | Event::Batch(_) => "autocommit_or_batch",
                Event::Exec(..) => "session_statement",
                _ => "other",
            };
            bump(&mut out.counters, &format!("crash_during:{kind}"), 1);
        } else {
            bump(&mut out.counters, "crash_between_events", 1);
        }
        if acked > 0 {
            bump(&mut out.counters, "crash_points_after_an_ack", 1);
        }
        let a = &states[acked.min(states.len() - 1)];
        let b = &states[(acked + 1).min(states.len() - 1)];
        let during = inflight.map(|j| format!(" during event {j} [{}]", case.events[j].short())).unwrap_or_default();
        let at = format!("crash after I/O #{k} ({class}){during}, {acked} events acknowledged");
        img.write_out(&dir_b);
        if !dir_b.join(DB_FILE).exists() {
            continue;
        }
        let ev_idx = inflight.unwrap_or(acked.saturating_sub(1));
        // recovery, optionally recorded for nested crash points
        if opts.nested {
            tap::start(&dir_b);
        }
        let opened = open_guarded(&dir_b, case.cfg);
        let rec_log = if opts.nested { tap::stop() } else { vec![] };
        let eng = match opened {
            Ok(e) => e,
            Err(m) => {
                bump(&mut out.counters, "open_failures", 1);
                if opts.report_open {
                    out.violation = Some(Violation { oracle: "O-open".into(), event: ev_idx, detail: format!("{at}: open failed: {m}") });
                    break;
                }
                continue;
            }
        };
        let obs = match observe(&eng, &tables) {
            Ok(o) => o,
            Err(m) => {
                eng.leak_or_close();
                if opts.report_open || opts.report_lost {
                    out.violation = Some(Violation { oracle: "O-open".into(), event: ev_idx, detail: format!("{at}: {m}") });
                    break;
                }
                continue;
            }
        };
        let verdict = judge(&obs, a, b);
        match &verdict {
            Verdict::Ok => bump(&mut out.counters, "crash_points_correct", 1),
            Verdict::Lost(m) => {
                bump(&mut out.counters, "verdict_lost", 1);
                if opts.report_lost {
                    eng.leak_or_close();
                    out.violation = Some(Violation { oracle: "O-durability".into(), event: ev_idx, detail: format!("{at}: {m}; engine has {}; acknowledged state: {}", show_obs(&obs), show_state(a)) });
                    break;
                }
            }
            Verdict::Extra(m) => {
                bump(&mut out.counters, "verdict_extra", 1);
                if opts.report_extra {
                    eng.leak_or_close();
                    out.violation = Some(Violation { oracle: "O-atomicity".into(), event: ev_idx, detail: format!("{at}: {m}") });
                    break;
                }
            }
        }
        if opts.usability && verdict == Verdict::Ok {
            // usable: a write-then-read smoke transaction
            let smoke = eng.exec("CREATE TABLE zz_smoke (id BIGINT, v INT)");
            let ins = eng.exec("INSERT INTO zz_smoke VALUES (1, 1)");
            let sel = eng.exec("SELECT * FROM zz_smoke");
            let ok = matches!(smoke, Out::Ddl) && matches!(ins, Out::Count(1)) && sel == Out::Rows(vec![vec!["1".into(), "1".into()]]);
            // a committed DROP TABLE ... CASCADE took the table's indexes with it: after recovery their names are free again
            let mut freed: Vec<&String> = vec![];
            for j in 0..acked.min(case.events.len()) {
                if let Event::Auto(crate::stmt::Stmt::DropTable { name: t, cascade: true }) = &case.events[j] {
                    for e in &case.events[..j] {
                        if let Event::Auto(crate::stmt::Stmt::CreateIndex { name, table, .. }) | Event::Exec(_, crate::stmt::Stmt::CreateIndex { name, table, .. }) = e {
                            if table == t && !freed.contains(&name) {
                                freed.push(name);
                            }
                        }
                    }
                }
            }
            let mut ok = ok;
            let mut reuse = String::new();
            if let Some(name) = freed.first() {
                let r = eng.exec(&format!("CREATE UNIQUE INDEX {name} ON zz_smoke (id)"));
                bump(&mut out.counters, "index_name_reuse_probes_after_cascade_drop", 1);
                if !matches!(r, Out::Ddl) {
                    ok = false;
                    reuse = format!(" reuse of index name {name} of a table dropped with CASCADE: {}", r.short());
                }
            }
            let dr = eng.exec(if freed.is_empty() { "DROP TABLE zz_smoke" } else { "DROP TABLE zz_smoke CASCADE" });
            if !ok || dr.is_err() || util::panic_count() > 0 {
                let p = util::take_panics();
                eng.leak_or_close();
                out.violation = Some(Violation { oracle: "O-usable".into(), event: ev_idx, detail: format!("{at}: recovered database is not usable: create={} insert={} select={} drop={}{reuse} panics={:?}", smoke.short(), ins.short(), sel.short(), dr.short(), p) });
                break;
            }
            bump(&mut out.counters, "smoke_transactions", 1);
        }
        let mut eng = eng;
        if opts.usability {
            // opening an already recovered database changes nothing
            let r = eng.reopen(case.cfg);
            if r.is_err() {
                out.violation = Some(Violation { oracle: "O-open".into(), event: ev_idx, detail: format!("{at}: second open after recovery failed: {}", r.short()) });
                break;
            }
            match observe(&eng, &tables) {
                Ok(o2) if o2 == obs => bump(&mut out.counters, "reopen_after_recovery_same", 1),
                Ok(o2) => {
                    eng.close();
                    out.violation = Some(Violation { oracle: "O-repeat".into(), event: ev_idx, detail: format!("{at}: contents changed by closing and opening the recovered database again: {} -> {}", show_obs(&obs), show_obs(&o2)) });
                    break;
                }
                Err(m) => {
                    eng.close();
                    out.violation = Some(Violation { oracle: "O-repeat".into(), event: ev_idx, detail: format!("{at}: after a second open: {m}") });
                    break;
                }
            }
        }
        eng.close();
        let _ = util::take_panics();
        // nested: crash inside the recovery that just ran
        if opts.nested {
            let muts: Vec<usize> = (0..rec_log.len()).filter(|i| is_mutation(&rec_log[*i])).collect();
            let step = (muts.len() / opts.nested_cap.max(1)).max(1);
            let mut img2 = img.clone();
            let mut applied = 0usize;
            let mut win2 = false;
            let mut after_truncate = false;
            let skip_recovery_truncate = case.guards.iter().any(|g| g == "crash_after_recovery_truncated_log");
            for (n, mi) in muts.iter().enumerate() {
                while applied <= *mi {
                    if is_mutation(&rec_log[applied]) {
                        img2.apply(&rec_log[applied]);
                    }
                    applied += 1;
                }
                if skip_recovery_truncate && rec_log[*mi].file == "axmos.log" && rec_log[*mi].kind == tap::Kind::SetLen {
                    after_truncate = true;
                }
                if skip_recovery_truncate && after_truncate {
                    // F6: recovery truncates the log before what it redid is durable
                    bump(&mut out.counters, "nested_points_after_recovery_truncate_not_judged", 1);
                    continue;
                }
                if skip_ckpt_window {
                    let e2 = &rec_log[*mi];
                    if e2.file != "axmos.log" && e2.kind == tap::Kind::Write {
                        win2 = true;
                    }
                    if e2.file == "axmos.log" && e2.kind == tap::Kind::SetLen {
                        win2 = false;
                    }
                    if win2 {
                        bump(&mut out.counters, "nested_points_in_checkpoint_window_not_judged", 1);
                        continue;
                    }
                }
                if n % step != 0 && n + 1 != muts.len() {
                    continue;
                }
                bump(&mut out.counters, "nested_crash_points", 1);
                out.steps += 1;
                img2.write_out(&dir_c);
                let at2 = format!("{at}; then crash inside recovery after its I/O #{} of {} ({})", n + 1, muts.len(), classify_point(&rec_log, mi + 1));
                match open_guarded(&dir_c, case.cfg) {
                    Err(m) => {
                        out.violation = Some(Violation { oracle: "O-open".into(), event: ev_idx, detail: format!("{at2}: open failed: {m}") });
                        break;
                    }
                    Ok(mut e2) => {
                        let o2 = observe(&e2, &tables);
                        e2.close();
                        let _ = util::take_panics();
                        match o2 {
                            Ok(o2) if o2 == obs => bump(&mut out.counters, "nested_same_contents", 1),
                            Ok(o2) => {
                                out.violation = Some(Violation { oracle: "O-repeat".into(), event: ev_idx, detail: format!("{at2}: interrupted-and-restarted recovery yields {} but uninterrupted recovery yields {}", show_obs(&o2), show_obs(&obs)) });
                                break;
                            }
                            Err(m) => {
                                out.violation = Some(Violation { oracle: "O-open".into(), event: ev_idx, detail: format!("{at2}: {m}") });
                                break;
                            }
                        }
                    }
                }
            }
            if out.violation.is_some() {
                break;
            }
        }
    }
    let _ = std::fs::remove_dir_all(&dir_b);
    let _ = std::fs::remove_dir_all(&dir_c);
    let _ = util::take_panics();
    out
}

impl Eng {
    pub fn leak_or_close(mut self) {
        self.close();
    }
}

pub fn run_case(case: &SqlReplay, idx: u64) -> RunResult {
    let opts = opts_for(&case.property);
    let r = run_crash_case(case, &opts);
    let mut res = RunResult { idx, seed: case.seed, violation: r.violation.clone(), counters: r.counters, fingerprint: r.fingerprint, steps: r.steps, replay: None, hazards: vec![] };
    if r.violation.is_some() {
        let mut c = case.clone();
        c.violation = r.violation;
        c.trace = r.trace;
        res.replay = Some(serde_json::to_value(&c).unwrap());
    }
    res
}
