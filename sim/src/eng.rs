//! Thin wrapper around the real engine: one database handle, numbered sessions,
//! results normalised into plain data the oracles compare.
use axmosdb::{DBConfig, Database, runtime::QueryResult, tcp::session::Session};
use serde::{Deserialize, Serialize};
use std::collections::BTreeMap;
use std::path::{Path, PathBuf};

#[derive(Clone, Copy, Debug, PartialEq, Eq, Serialize, Deserialize)]
pub struct Cfg {
    pub page: usize,
    pub cache: usize,
    pub pool: usize,
    pub min_keys: usize,
    pub siblings: usize,
}

impl Cfg {
    pub fn default_small() -> Self {
        Cfg { page: 4096, cache: 256, pool: 1, min_keys: 3, siblings: 2 }
    }
    pub fn to_db(&self) -> DBConfig {
        DBConfig {
            page_size: self.page,
            cache_size: self.cache,
            pool_size: self.pool,
            num_siblings_per_side: self.siblings,
            min_keys_per_page: self.min_keys,
        }
    }
}

#[derive(Clone, Debug, PartialEq, Eq, Serialize, Deserialize)]
pub enum ErrClass {
    /// unknown table / column / object
    NotFound,
    AlreadyExists,
    /// UNIQUE / PRIMARY KEY / NOT NULL violation
    Constraint,
    /// type mismatch and similar statement-level semantic errors
    Type,
    /// parser / binder rejected the text
    Syntax,
    /// write-write conflict or other transaction-management rejection
    Conflict,
    /// explicit out-of-memory from the page cache
    Oom,
    /// the pool job died (panic) or channel closed
    Internal,
    Other,
}

pub fn classify(msg: &str) -> ErrClass {
    let m = msg.to_ascii_lowercase();
    if m.contains("out of memory") {
        ErrClass::Oom
    } else if m.contains("channel closed") || m.contains("panicked") {
        ErrClass::Internal
    } else if m.contains("already exists") {
        ErrClass::AlreadyExists
    } else if m.contains("constraint") || m.contains("unique") || m.contains("not null") || m.contains("null value") || m.contains("duplicate") {
        ErrClass::Constraint
    } else if m.contains("not found") || m.contains("does not exist") || m.contains("unknown") || m.contains("no such") {
        ErrClass::NotFound
    } else if m.contains("conflict") || m.contains("transaction management") {
        ErrClass::Conflict
    } else if m.contains("parse") || m.contains("parser") || m.contains("syntax") || m.contains("unexpected token") || m.contains("lexer") || m.contains("expected") {
        ErrClass::Syntax
    } else if m.contains("type") || m.contains("mismatch") || m.contains("cast") || m.contains("invalid") {
        ErrClass::Type
    } else {
        ErrClass::Other
    }
}

#[derive(Clone, Debug, PartialEq, Eq, Serialize, Deserialize)]
pub enum Out {
    /// rows rendered as text, sorted (multiset comparison)
    Rows(Vec<Vec<String>>),
    Count(u64),
    Ddl,
    Ok,
    Err(ErrClass, String),
}

impl Out {
    pub fn is_err(&self) -> bool {
        matches!(self, Out::Err(..))
    }
    pub fn short(&self) -> String {
        match self {
            Out::Rows(r) => {
                let body: Vec<String> = r.iter().map(|x| format!("({})", x.join(","))).collect();
                format!("ROWS[{}] {}", r.len(), body.join(" "))
            }
            Out::Count(n) => format!("COUNT {n}"),
            Out::Ddl => "DDL".into(),
            Out::Ok => "OK".into(),
            Out::Err(c, m) => format!("ERR {:?}: {}", c, m.chars().take(200).collect::<String>()),
        }
    }
}

pub fn norm(r: Result<QueryResult, String>) -> Out {
    match r {
        Ok(QueryResult::Rows(rows)) => {
            let mut out: Vec<Vec<String>> = rows
                .iterrows()
                .map(|row| row.iter().map(|v| v.to_string()).collect())
                .collect();
            out.sort();
            Out::Rows(out)
        }
        Ok(QueryResult::RowsAffected(n)) => Out::Count(n),
        Ok(QueryResult::Ddl(_)) => Out::Ddl,
        Err(e) => Out::Err(classify(&e), e),
    }
}

pub const DB_FILE: &str = "t.axm";

pub struct Eng {
    pub dir: PathBuf,
    pub db: Option<Database>,
    pub sessions: BTreeMap<u32, Session>,
    pub cfg: Cfg,
    /// E5b: every call goes through the wire protocol and the server's request loop instead
    pub served: Option<parking_lot::Mutex<crate::served::Served>>,
}

impl Eng {
    pub fn create(dir: &Path, cfg: Cfg) -> Result<Eng, String> {
        let db = Database::create(dir.join(DB_FILE), cfg.to_db()).map_err(|e| e.to_string())?;
        Ok(Eng { dir: dir.to_path_buf(), db: Some(db), sessions: BTreeMap::new(), cfg, served: None })
    }
    pub fn create_served(dir: &Path, cfg: Cfg, scfg: crate::served::ServedCfg) -> Result<Eng, String> {
        let s = crate::served::Served::create(dir, DB_FILE, cfg, scfg)?;
        Ok(Eng { dir: dir.to_path_buf(), db: None, sessions: BTreeMap::new(), cfg, served: Some(parking_lot::Mutex::new(s)) })
    }
    /// first wire-level anomaly seen by the served transport, if any
    pub fn wire_fault(&self) -> Option<String> {
        self.served.as_ref().and_then(|s| s.lock().wire_fault.clone())
    }
    pub fn served_stats(&self) -> BTreeMap<String, u64> {
        self.served.as_ref().map(|s| s.lock().stats.clone()).unwrap_or_default()
    }
    pub fn with_db<T>(&self, f: impl FnOnce(&Database) -> T) -> T {
        match &self.served {
            Some(s) => s.lock().with_db(|d| f(d.expect("db open"))),
            None => f(self.db()),
        }
    }
    pub fn open(dir: &Path, cfg: Cfg) -> Result<Eng, String> {
        let db = Database::open(dir.join(DB_FILE), cfg.to_db()).map_err(|e| e.to_string())?;
        Ok(Eng { dir: dir.to_path_buf(), db: Some(db), sessions: BTreeMap::new(), cfg, served: None })
    }
    pub fn db(&self) -> &Database {
        self.db.as_ref().expect("db open")
    }
    pub fn exec(&self, sql: &str) -> Out {
        if let Some(sv) = &self.served {
            return sv.lock().exec(sql);
        }
        norm(self.db().execute(sql).map_err(|e| e.to_string()))
    }
    pub fn batch(&self, sqls: &[String]) -> Result<Vec<Out>, Out> {
        let refs: Vec<&str> = sqls.iter().map(|s| s.as_str()).collect();
        // (the protocol has no batch request: in served mode a batch goes to the handle directly)
        match self.with_db(|d| d.execute_batch(&refs)) {
            Ok(v) => Ok(v.into_iter().map(|r| norm(Ok(r))).collect()),
            Err(e) => {
                let m = e.to_string();
                Err(Out::Err(classify(&m), m))
            }
        }
    }
    pub fn begin(&mut self, s: u32) -> Out {
        if let Some(sv) = &self.served {
            return sv.lock().begin(s);
        }
        match self.db().session() {
            Ok(sess) => {
                self.sessions.insert(s, sess);
                Out::Ok
            }
            Err(e) => {
                let m = e.to_string();
                Out::Err(classify(&m), m)
            }
        }
    }
    pub fn sexec(&mut self, s: u32, sql: &str) -> Out {
        if let Some(sv) = &self.served {
            return sv.lock().sexec(s, sql);
        }
        match self.sessions.get_mut(&s) {
            Some(sess) => norm(sess.execute(sql).map_err(|e| e.to_string())),
            None => Out::Err(ErrClass::Other, "no such session".into()),
        }
    }
    pub fn commit(&mut self, s: u32) -> Out {
        if let Some(sv) = &self.served {
            return sv.lock().commit(s);
        }
        match self.sessions.remove(&s) {
            Some(mut sess) => match sess.commit_transaction() {
                Ok(()) => Out::Ok,
                Err(e) => {
                    let m = e.to_string();
                    Out::Err(classify(&m), m)
                }
            },
            None => Out::Err(ErrClass::Other, "no such session".into()),
        }
    }
    pub fn abort(&mut self, s: u32) -> Out {
        if let Some(sv) = &self.served {
            return sv.lock().abort(s);
        }
        match self.sessions.remove(&s) {
            Some(mut sess) => match sess.abort_transaction() {
                Ok(()) => Out::Ok,
                Err(e) => {
                    let m = e.to_string();
                    Out::Err(classify(&m), m)
                }
            },
            None => Out::Err(ErrClass::Other, "no such session".into()),
        }
    }
    pub fn drop_session(&mut self, s: u32) {
        if let Some(sv) = &self.served {
            return sv.lock().drop_session(s);
        }
        self.sessions.remove(&s);
    }
    pub fn vacuum(&self) -> Out {
        if let Some(sv) = &self.served {
            return sv.lock().vacuum();
        }
        match self.db().vacuum() {
            Ok(st) => Out::Count(st.total_freed() as u64),
            Err(e) => {
                let m = e.to_string();
                Out::Err(classify(&m), m)
            }
        }
    }
    pub fn analyze(&self) -> Out {
        if let Some(sv) = &self.served {
            return sv.lock().analyze();
        }
        match self.db().analyze(1.0, 10000) {
            Ok(()) => Out::Ok,
            Err(e) => {
                let m = e.to_string();
                Out::Err(classify(&m), m)
            }
        }
    }
    pub fn flush(&self) -> Out {
        match self.with_db(|d| d.flush()) {
            Ok(()) => Out::Ok,
            Err(e) => {
                let m = e.to_string();
                Out::Err(classify(&m), m)
            }
        }
    }
    /// (hits, misses, evictions) of the page cache (reach probe).
    pub fn cache_stats(&self) -> (u64, u64, u64) {
        if self.served.is_some() {
            return self.with_db(axmosdb::verif::facade::probe::cache_stats);
        }
        match &self.db {
            Some(d) => axmosdb::verif::facade::probe::cache_stats(d),
            None => (0, 0, 0),
        }
    }
    pub fn explain(&self, sql: &str) -> Result<String, String> {
        if let Some(sv) = &self.served {
            return sv.lock().explain(sql);
        }
        self.db().explain(sql).map_err(|e| e.to_string())
    }
    /// Clean close (sessions dropped first, then the handle) and reopen.
    pub fn reopen(&mut self, cfg: Cfg) -> Out {
        if let Some(sv) = &self.served {
            return sv.lock().reopen();
        }
        self.sessions.clear();
        drop(self.db.take());
        match Database::open(self.dir.join(DB_FILE), cfg.to_db()) {
            Ok(d) => {
                self.db = Some(d);
                self.cfg = cfg;
                Out::Ok
            }
            Err(e) => {
                let m = e.to_string();
                Out::Err(classify(&m), m)
            }
        }
    }
    pub fn close(&mut self) {
        if let Some(sv) = &self.served {
            return sv.lock().close();
        }
        self.sessions.clear();
        drop(self.db.take());
    }
    /// Abandon the instance without running any destructor (used after a hang/deadlock).
    pub fn leak(mut self) {
        for (_, s) in std::mem::take(&mut self.sessions) {
            std::mem::forget(s);
        }
        std::mem::forget(self.db.take());
    }
}
