//! Trigger predicates of open known findings as checkers over whole histories.
//! The generator avoids these situations while generating; this module decides them for an
//! arbitrary event list, so that (a) the minimiser never shrinks a new violation into a
//! history that trips a *different*, already known defect, and (b) the generator can be
//! audited (a generated history must never violate its own guards).
use crate::model::{Expect, Model, Tx, TxStatus};
use crate::stmt::*;
use std::collections::{BTreeMap, BTreeSet};

struct St {
    model: Model,
    sess: BTreeMap<u32, Tx>,
    commits: u64,
    relations: u32,
    inserted: BTreeMap<String, u32>,
    delete_rolled_back: BTreeSet<String>,
    sess_deleted: BTreeMap<u32, BTreeSet<String>>,
    updated_tables: BTreeSet<String>,
    poisoned: BTreeSet<(String, String)>,
    vacuumed: bool,
    /// the previous event was a checkpoint
    after_flush: bool,
    /// sessions whose transaction VACUUM aborted and that have not been ended yet
    zombies: BTreeSet<u32>,
}

fn key_str(vals: &[Val], cols: &[usize]) -> String {
    cols.iter().map(|c| vals[*c].render()).collect::<Vec<_>>().join("|")
}

impl St {
    /// The key of `row` is the key of a row that somebody (who has not aborted) has deleted: inserting it
    /// again overwrites the single index entry of that key (finding U2). A key held by a live row is an
    /// ordinary duplicate, a key held by an open transaction's insert a write-write conflict, a key left
    /// by an aborted insert is free.
    fn key_used_before(&self, ti: usize, row: &[Val]) -> bool {
        let t = &self.model.tables[ti];
        t.uniques.iter().any(|u| {
            let k = key_str(row, &u.cols);
            t.rows.iter().any(|r| {
                r.deleters.iter().any(|d| self.model.txs[*d].status != crate::model::TxStatus::Aborted) && r.versions.iter().any(|v| key_str(&v.vals, &u.cols) == k)
            })
        })
    }
    fn key_of_rolled_back_insert(&self, ti: usize, row: &[Val]) -> bool {
        let t = &self.model.tables[ti];
        t.uniques.iter().any(|u| {
            let k = key_str(row, &u.cols);
            self.poisoned.contains(&(t.name.clone(), format!("{}:{k}", u.name)))
                || t.rows.iter().any(|r| self.model.txs[r.creator].status == TxStatus::Aborted && r.versions.iter().any(|v| key_str(&v.vals, &u.cols) == k))
        })
    }
    fn poison(&mut self, tx: Tx, stmts: &[Stmt]) {
        for s in stmts {
            if let Stmt::Insert { table, rows } = s {
                if let Some(ti) = self.model.find_table(tx, table) {
                    let t = self.model.tables[ti].clone();
                    for r in rows {
                        if r.len() != t.cols.len() {
                            continue;
                        }
                        for u in &t.uniques {
                            self.poisoned.insert((t.name.clone(), format!("{}:{}", u.name, key_str(r, &u.cols))));
                        }
                    }
                }
            }
        }
    }

    /// Guards that concern one statement executed by `tx` (in session `k`, in a batch, or autocommit).
    fn stmt_guards(&mut self, has: &dyn Fn(&str) -> bool, tx: Tx, s: &Stmt, k: Option<u32>, in_batch: bool) -> Option<String> {
        let others_active = self.model.active().iter().any(|a| *a != tx);
        let multi = k.is_some() || in_batch;
        let h0 = self.model.hazards.len();
        let exp = self.model.run(tx, s, false);
        let hazard = self.model.hazards.len() > h0;
        self.model.hazards.truncate(h0);
        if hazard && (has("concurrent_writers_same_row") || has("concurrent_inserts_same_key")) {
            return Some("concurrent_writers_same_row".into());
        }
        let ti = s.table().and_then(|t| self.model.find_table(tx, t));
        match s {
            Stmt::Update { set, .. } => {
                if has("update_inside_open_or_overlapping_txn") && (k.is_some() || others_active) {
                    return Some("update_inside_open_or_overlapping_txn".into());
                }
                if let Some(ti) = ti {
                    let t = &self.model.tables[ti];
                    if has("update_on_table_with_unique_index") && !t.uniques.is_empty() {
                        return Some("update_on_table_with_unique_index".into());
                    }
                    if has("arithmetic_update_on_indexed_table") && !t.uniques.is_empty() && set.iter().any(|(_, e)| matches!(e, Expr::ColPlus(..))) {
                        return Some("arithmetic_update_on_indexed_table".into());
                    }
                    let ucols: BTreeSet<usize> = t.uniques.iter().flat_map(|u| u.cols.iter().copied()).collect();
                    if has("update_of_uniquely_constrained_column") && set.iter().any(|(c, _)| t.col(c).map(|i| ucols.contains(&i)).unwrap_or(false)) {
                        return Some("update_of_uniquely_constrained_column".into());
                    }
                }
                if has("delete_of_updated_row_in_multi_statement_txn") && in_batch {
                    return Some("delete_of_updated_row_in_multi_statement_txn".into());
                }
            }
            Stmt::Delete { table, pred } => {
                if has("delete_after_rolled_back_delete") && self.delete_rolled_back.contains(table) {
                    return Some("delete_after_rolled_back_delete".into());
                }
                if has("delete_of_updated_row_in_multi_statement_txn") && self.updated_tables.contains(table) && multi {
                    return Some("delete_of_updated_row_in_multi_statement_txn".into());
                }
                if has("delete_of_own_insert_in_open_txn") && multi {
                    if let Some(ti) = ti {
                        let t = self.model.tables[ti].clone();
                        let hits_own = self.model.visible_rows(tx, ti).iter().any(|(ri, vals)| self.model.tables[ti].rows[*ri].creator == tx && t.matches_pub(pred, vals));
                        if hits_own {
                            return Some("delete_of_own_insert_in_open_txn".into());
                        }
                    }
                }
            }
            Stmt::DropTable { .. } if matches!(exp, Expect::Fail(_)) => {}
            Stmt::DropTable { .. } => {
                if has("drop_table_inside_session") && k.is_some() {
                    return Some("drop_table_inside_session".into());
                }
                if has("drop_of_table_with_pending_drop") {
                    if let Some(ti) = ti {
                        if self.model.tables[ti].droppers.iter().any(|d| *d != tx && self.model.txs[*d].status == crate::model::TxStatus::Active) {
                            return Some("drop_of_table_with_pending_drop".into());
                        }
                    }
                }
                if has("drop_table_before_crash") && !(has("drop_only_after_checkpoint") && self.after_flush && k.is_none() && !in_batch && self.sess.is_empty()) {
                    return Some("drop_table_before_crash".into());
                }
            }
            Stmt::Insert { table, rows } => {
                if let Some(ti) = ti {
                    let t = self.model.tables[ti].clone();
                    let ucols: BTreeSet<usize> = t.uniques.iter().flat_map(|u| u.cols.iter().copied()).collect();
                    let well_formed = rows.iter().all(|r| r.len() == t.cols.len());
                    if well_formed {
                        if has("null_in_unique_column") && rows.iter().any(|r| r.iter().enumerate().any(|(i, v)| v.is_null() && ucols.contains(&i))) {
                            return Some("null_in_unique_column".into());
                        }
                        if has("failing_multi_row_statement_in_session") && k.is_some() && rows.len() > 1 && matches!(exp, Expect::Fail(_)) {
                            return Some("failing_multi_row_statement_in_session".into());
                        }
                        let accepted = !matches!(exp, Expect::Fail(_));
                        if accepted {
                            if has("more_than_18_inserts_per_table") && self.inserted.get(table).copied().unwrap_or(0) + rows.len() as u32 > 18 {
                                return Some("more_than_18_inserts_per_table".into());
                            }
                            if has("more_than_32_inserts_per_table") && self.inserted.get(table).copied().unwrap_or(0) + rows.len() as u32 > 32 {
                                return Some("more_than_32_inserts_per_table".into());
                            }
                            if has("more_than_100_inserts_per_table") && self.inserted.get(table).copied().unwrap_or(0) + rows.len() as u32 > 100 {
                                return Some("more_than_100_inserts_per_table".into());
                            }
                            if has("unique_key_reuse_while_session_open") && (!self.sess.is_empty() || in_batch) && rows.iter().any(|r| self.key_used_before(ti, r)) {
                                return Some("unique_key_reuse_while_session_open".into());
                            }
                            if has("collision_with_key_of_rolled_back_insert") && rows.iter().any(|r| self.key_of_rolled_back_insert(ti, r)) {
                                return Some("collision_with_key_of_rolled_back_insert".into());
                            }
                        } else if has("collision_with_key_of_rolled_back_insert") && exp == Expect::Fail("unique") {
                            // a rejection because of a key whose earlier insert was rolled back
                            if rows.iter().any(|r| self.key_of_rolled_back_insert(ti, r)) {
                                return Some("collision_with_key_of_rolled_back_insert".into());
                            }
                        }
                    }
                }
            }
            Stmt::Alter { action: AlterAction::DropColumn(_), .. } if has("alter_drop_column") && !matches!(exp, Expect::Fail(_)) => {
                return Some("alter_drop_column".into());
            }
            Stmt::Alter { action: AlterAction::AddColumn(_), .. } if has("alter_add_column") && !matches!(exp, Expect::Fail(_)) => {
                return Some("alter_add_column".into());
            }
            Stmt::CreateIndex { cols, name, .. } => {
                // finding X2: a plain DROP TABLE leaves the table's named indexes in the catalog, so the
                // name of an index of a dropped table stays taken
                if has("index_name_of_dropped_table_reused")
                    && self.model.tables.iter().enumerate().any(|(i, t)| Some(i) != ti && !t.droppers.is_empty() && t.uniques.iter().any(|u| &u.name == name))
                {
                    return Some("index_name_of_dropped_table_reused".into());
                }
                if has("mixed_type_index_out_of_table_order") && !matches!(exp, Expect::Fail(_)) {
                    if let Some(ti) = ti {
                        let t = &self.model.tables[ti];
                        let idx: Vec<usize> = cols.iter().filter_map(|c| t.col(c)).collect();
                        let sorted = idx.windows(2).all(|w| w[0] < w[1]);
                        let same_ty = idx.windows(2).all(|w| t.cols[w[0]].ty == t.cols[w[1]].ty);
                        if !sorted && !same_ty {
                            return Some("mixed_type_index_out_of_table_order".into());
                        }
                    }
                }
                if has("create_index_inside_session") && !self.sess.is_empty() && !matches!(exp, Expect::Fail(_)) {
                    return Some("create_index_inside_session".into());
                }
                if has("null_in_unique_column") && !matches!(exp, Expect::Fail(_)) {
                    if let Some(ti) = ti {
                        let t = self.model.tables[ti].clone();
                        let cis: Vec<usize> = cols.iter().filter_map(|c| t.col(c)).collect();
                        if self.model.visible_rows(tx, ti).iter().any(|(_, v)| cis.iter().any(|ci| v[*ci].is_null())) {
                            return Some("null_in_unique_column".into());
                        }
                    }
                }
                if has("more_than_3_relations") && !matches!(exp, Expect::Fail(_)) && self.relations + 1 > 3 {
                    return Some("more_than_3_relations".into());
                }
            }
            Stmt::CreateTable { .. } if has("create_table_inside_session") && k.is_some() && !matches!(exp, Expect::Fail(_)) => {
                return Some("create_table_inside_session".into());
            }
            Stmt::CreateTable { name, pk, uniques, .. } => {
                // the name index of the catalog keeps one entry per name: re-using the name of a dropped
                // table hides the old table from transactions that can still see it
                if has("table_name_reuse_while_session_open") && !matches!(exp, Expect::Fail(_)) && (others_active || k.is_some()) && self.model.tables.iter().any(|t| &t.name == name) {
                    return Some("table_name_reuse_while_session_open".into());
                }
                let n = 1 + uniques.len() as u32 + pk.is_some() as u32;
                if has("more_than_3_relations") && !matches!(exp, Expect::Fail(_)) && self.relations + n > 3 {
                    return Some("more_than_3_relations".into());
                }
            }
            _ => {}
        }
        if s.is_ddl() && !matches!(exp, Expect::Fail(_)) && has("ddl_after_vacuum") && self.vacuumed {
            return Some("ddl_after_vacuum".into());
        }
        if s.is_ddl() && !matches!(exp, Expect::Fail(_)) {
            if has("ddl_concurrent_with_open_session") && others_active {
                return Some("ddl_concurrent_with_open_session".into());
            }
            if has("uncheckpointed_create_with_open_txn") && (k.is_some() || !self.sess.is_empty()) {
                return Some("uncheckpointed_create_with_open_txn".into());
            }
        }
        None
    }

    /// Bookkeeping after a statement the model accepts was applied.
    fn after_stmt(&mut self, s: &Stmt, k: Option<u32>, exp: &Expect) {
        match s {
            Stmt::Insert { table, rows } => *self.inserted.entry(table.clone()).or_insert(0) += rows.len() as u32,
            Stmt::Update { table, .. } => {
                self.updated_tables.insert(table.clone());
            }
            Stmt::Delete { table, .. } => {
                if let Some(k) = k {
                    if *exp != Expect::Count(0) {
                        self.sess_deleted.entry(k).or_default().insert(table.clone());
                    }
                }
            }
            Stmt::CreateTable { pk, uniques, .. } => self.relations += 1 + uniques.len() as u32 + pk.is_some() as u32,
            Stmt::CreateIndex { .. } => self.relations += 1,
            _ => {}
        }
    }

    fn end_session(&mut self, k: u32, rolled_back: bool) {
        if let Some(ts) = self.sess_deleted.remove(&k) {
            if rolled_back {
                self.delete_rolled_back.extend(ts);
            }
        }
    }
}

/// First event at which the history trips one of `guards`, with the guard's name.
pub fn first_violation(events: &[Event], guards: &[String]) -> Option<(usize, String)> {
    let has = |g: &str| guards.iter().any(|x| x == g);
    let mut st = St {
        model: Model::new(),
        sess: BTreeMap::new(),
        commits: 0,
        relations: 0,
        inserted: BTreeMap::new(),
        delete_rolled_back: BTreeSet::new(),
        sess_deleted: BTreeMap::new(),
        updated_tables: BTreeSet::new(),
        poisoned: BTreeSet::new(),
        vacuumed: false,
        after_flush: false,
        zombies: BTreeSet::new(),
    };
    for (i, ev) in events.iter().enumerate() {
        st.after_flush = i > 0 && matches!(events[i - 1], Event::Flush);
        match ev {
            Event::Auto(s) => {
                let tx = st.model.begin();
                if let Some(g) = st.stmt_guards(&has, tx, s, None, false) {
                    return Some((i, g));
                }
                let e = st.model.run(tx, s, false);
                if matches!(e, Expect::Fail(_)) {
                    st.poison(tx, std::slice::from_ref(s));
                    if let Stmt::Delete { table, .. } = s {
                        st.delete_rolled_back.insert(table.clone());
                    }
                    st.model.abort(tx);
                } else {
                    st.model.run(tx, s, true);
                    st.model.commit(tx);
                    st.after_stmt(s, None, &e);
                    if !s.is_read() {
                        st.commits += 1;
                    }
                    if has("uncheckpointed_create_with_open_txn") && matches!(s, Stmt::CreateTable { .. }) && !matches!(events.get(i + 1), Some(Event::Flush)) {
                        return Some((i, "uncheckpointed_create_with_open_txn".into()));
                    }
                }
            }
            Event::Batch(ss) => {
                let saved = st.model.clone();
                let saved_ins = st.inserted.clone();
                let saved_upd = st.updated_tables.clone();
                let saved_rel = st.relations;
                let tx = st.model.begin();
                let mut ok = true;
                for s in ss {
                    if let Some(g) = st.stmt_guards(&has, tx, s, None, true) {
                        return Some((i, g));
                    }
                    let e = st.model.run(tx, s, false);
                    if matches!(e, Expect::Fail(_)) {
                        ok = false;
                        break;
                    }
                    st.model.run(tx, s, true);
                    st.after_stmt(s, None, &e);
                }
                if ok {
                    st.model.commit(tx);
                    st.commits += 1;
                } else {
                    st.model = saved;
                    st.inserted = saved_ins;
                    st.updated_tables = saved_upd;
                    st.relations = saved_rel;
                    let tx0 = st.model.begin();
                    st.poison(tx0, ss);
                    st.model.abort(tx0);
                    for s in ss {
                        if let Stmt::Delete { table, .. } = s {
                            st.delete_rolled_back.insert(table.clone());
                        }
                    }
                }
            }
            Event::Begin(k) => {
                let tx = st.model.begin();
                st.zombies.remove(k);
                st.sess.insert(*k, tx);
            }
            Event::Exec(k, s) => {
                if has("statement_in_session_after_vacuum_aborted_it") && st.zombies.contains(k) {
                    return Some((i, "statement_in_session_after_vacuum_aborted_it".into()));
                }
                let Some(&tx) = st.sess.get(k) else { continue };
                if let Some(g) = st.stmt_guards(&has, tx, s, Some(*k), false) {
                    return Some((i, g));
                }
                let e = st.model.run(tx, s, false);
                if !matches!(e, Expect::Fail(_)) {
                    st.model.run(tx, s, true);
                    st.after_stmt(s, Some(*k), &e);
                } else if e == Expect::Fail("write conflict") {
                    st.sess.remove(k);
                    st.model.abort(tx);
                    st.end_session(*k, true);
                } else {
                    st.poison(tx, std::slice::from_ref(s));
                }
            }
            Event::Commit(k) => {
                st.zombies.remove(k);
                let Some(tx) = st.sess.remove(k) else { continue };
                if st.model.txs[tx].status == TxStatus::Aborted {
                    st.end_session(*k, true);
                } else if st.model.commit_must_fail(tx) {
                    st.model.abort(tx);
                    st.end_session(*k, true);
                } else {
                    if st.model.txs[tx].writes > 0 {
                        st.commits += 1;
                    }
                    st.model.commit(tx);
                    st.end_session(*k, false);
                }
            }
            Event::Abort(k) | Event::DropSession(k) => {
                st.zombies.remove(k);
                let Some(tx) = st.sess.remove(k) else { continue };
                st.model.abort(tx);
                st.end_session(*k, true);
            }
            Event::Vacuum => {
                if has("session_open_across_vacuum") && !st.sess.is_empty() {
                    return Some((i, "session_open_across_vacuum".into()));
                }
                if has("vacuum_with_more_than_one_table") && st.relations > 1 {
                    return Some((i, "vacuum_with_more_than_one_table".into()));
                }
                if has("vacuum_of_updated_rows") && !st.updated_tables.is_empty() {
                    return Some((i, "vacuum_of_updated_rows".into()));
                }
                if has("vacuum_after_rolled_back_delete") && (!st.delete_rolled_back.is_empty() || !st.sess_deleted.is_empty()) {
                    return Some((i, "vacuum_after_rolled_back_delete".into()));
                }
                let ks: Vec<u32> = st.sess.keys().copied().collect();
                for k in ks {
                    let tx = st.sess[&k];
                    st.model.abort(tx);
                    st.end_session(k, true);
                    st.sess.remove(&k);
                    st.zombies.insert(k);
                }
                st.vacuumed = true;
            }
            Event::Reopen(_) => {
                if matches!(ev, Event::Vacuum) && has("vacuum_with_more_than_one_table") && st.relations > 1 {
                    return Some((i, "vacuum_with_more_than_one_table".into()));
                }
                if matches!(ev, Event::Vacuum) && has("vacuum_of_updated_rows") && !st.updated_tables.is_empty() {
                    return Some((i, "vacuum_of_updated_rows".into()));
                }
                if matches!(ev, Event::Vacuum) && has("vacuum_after_rolled_back_delete") && (!st.delete_rolled_back.is_empty() || !st.sess_deleted.is_empty()) {
                    return Some((i, "vacuum_after_rolled_back_delete".into()));
                }
                st.zombies.clear();
                let ks: Vec<u32> = st.sess.keys().copied().collect();
                for k in ks {
                    let tx = st.sess.remove(&k).unwrap();
                    st.model.abort(tx);
                    st.end_session(k, true);
                }
                if matches!(ev, Event::Vacuum) {
                    st.vacuumed = true;
                }
            }
            Event::Flush => {
                if has("checkpoint_with_open_txn") && st.sess.values().any(|tx| st.model.txs[*tx].writes > 0) {
                    return Some((i, "checkpoint_with_open_txn".into()));
                }
            }
            Event::Probe(Probe::Join { left, right, lcol, rcol }) if has("join_on_column_holding_null") => {
                let tx = st.model.begin();
                let mut bad = false;
                for (t, c) in [(left, lcol), (right, rcol)] {
                    if let Some(ti) = st.model.find_table(tx, t) {
                        if let Some(ci) = st.model.tables[ti].col(c) {
                            if st.model.visible_rows(tx, ti).iter().any(|(_, r)| r[ci].is_null()) {
                                bad = true;
                            }
                        }
                    }
                }
                st.model.abort(tx);
                if bad {
                    return Some((i, "join_on_column_holding_null".into()));
                }
            }
            Event::Analyze | Event::Check | Event::TxnBurst(_) | Event::Probe(_) => {}
        }
    }
    None
}
