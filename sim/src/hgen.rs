//! History generator for E1/E2. It carries its own copy of the reference model so that
//! statements are generated against the state a correct engine would be in, and so that
//! guards (trigger predicates of open known findings) can be evaluated before emitting.
use crate::eng::Cfg;
use crate::model::{Expect, Model, Tx, TxStatus};
use crate::stmt::*;
use crate::util::Rng;
use serde::{Deserialize, Serialize};
use std::collections::{BTreeMap, BTreeSet};

#[derive(Clone, Debug, Serialize, Deserialize)]
pub struct Profile {
    pub name: String,
    pub min_events: u32,
    pub max_events: u32,
    pub max_tables: u32,
    pub max_sessions: u32,
    /// cap on rows ever inserted into one table (open findings D9/D15 bound it)
    pub max_inserts_per_table: u32,
    pub w_session: u32,
    pub w_auto: u32,
    pub w_batch: u32,
    pub w_check: u32,
    pub w_flush: u32,
    pub w_reopen: u32,
    pub w_vacuum: u32,
    pub w_ddl: u32,
    pub w_failing: u32,
    pub p_rollback: u32,
    pub p_drop_session: u32,
    pub constraints: bool,
    /// small key domain so that collisions happen constantly
    pub colliding_keys: bool,
    pub updates: bool,
    pub text_cols: bool,
    /// text values of several kilobytes (log spills over blocks, rows need overflow pages)
    pub big_text: bool,
    /// text values end in blanks, tabs, quotes, backslashes, LIKE wildcards or non-ASCII characters
    /// (E5b: what the server renders must arrive byte for byte)
    #[serde(default)]
    pub exotic_text: bool,
    /// sessions may be open when VACUUM runs (it aborts their transactions); each is ended - COMMIT,
    /// ROLLBACK or a vanishing client - right after it, without another statement (finding V1)
    #[serde(default)]
    pub zombie_sessions: bool,
    /// new rows often take the UNIQUE key of a row whose insert was rolled back or failed
    /// (the index entry such an insert leaves behind must not block or hide later rows: finding U1)
    #[serde(default)]
    pub reuse_dead_keys: bool,
    /// every text value is padded to exactly this many bytes (uniform cell sizes, several pages of data)
    pub pad_text: usize,
    /// a burst of this many autocommit reads somewhere in the history: each logs BEGIN/COMMIT/END,
    /// so the log grows past its first 40 KiB block without growing the tables
    pub read_burst: u32,
    /// reuse the names of dropped tables, create unique indexes on existing tables
    pub ddl_rich: bool,
    /// weight of hostile free-text statements (C16)
    pub w_chaos: u32,
    /// end the history with this many empty transactions, a reopen and a check (crosses the
    /// 8192-entry aborted-transaction bitmap)
    pub txn_burst: u32,
    /// issue plan-variant families at quiescent points (C06)
    pub plan_probes: bool,
    /// create the database with a cache of 24-32 pages
    pub small_cache: bool,
    pub guards: Vec<String>,
}

impl Profile {
    pub fn base(name: &str) -> Profile {
        Profile {
            name: name.into(),
            min_events: 8,
            max_events: 40,
            max_tables: 3,
            max_sessions: 3,
            max_inserts_per_table: 64,
            w_session: 50,
            w_auto: 25,
            w_batch: 5,
            w_check: 8,
            w_flush: 0,
            w_reopen: 0,
            w_vacuum: 0,
            w_ddl: 4,
            w_failing: 6,
            p_rollback: 35,
            p_drop_session: 10,
            constraints: false,
            colliding_keys: false,
            updates: true,
            text_cols: true,
            big_text: false,
            exotic_text: false,
            zombie_sessions: false,
            reuse_dead_keys: false,
            pad_text: 0,
            read_burst: 0,
            ddl_rich: false,
            w_chaos: 0,
            txn_burst: 0,
            plan_probes: false,
            small_cache: false,
            guards: default_guards(),
        }
    }
    pub fn has(&self, g: &str) -> bool {
        self.guards.iter().any(|x| x == g)
    }
}

/// Trigger predicates of the open known findings. While a finding is open the generator
/// does not emit histories on which its predicate holds (see DESIGN.md section 3).
pub fn default_guards() -> Vec<String> {
    [
        "update_inside_open_or_overlapping_txn", // D5, D28, D25
        "update_of_uniquely_constrained_column", // D7, D24
        "table_name_reuse_while_session_open",   // U2, in the catalog's name index
        "concurrent_writers_same_row",           // D8
        "update_on_table_with_unique_index",     // D7
        "delete_of_updated_row_in_multi_statement_txn", // D25
        "unique_key_reuse_while_session_open",   // U2
        "arithmetic_update_on_indexed_table",    // D24
        "create_index_inside_session",           // X1
        "alter_drop_column",                     // D17, D17b
        "alter_add_column",                      // D16
        "more_than_3_relations",                 // D15, F3 (tables + indexes)
        "index_name_of_dropped_table_reused",    // X2 (the generator numbers its index names and never reuses one)
    ]
    .iter()
    .map(|s| s.to_string())
    .collect()
}

pub struct Gen {
    pub rng: Rng,
    pub p: Profile,
    pub model: Model,
    pub events: Vec<Event>,
    sess: BTreeMap<u32, Tx>,
    next_sess: u32,
    next_val: i64,
    next_id: BTreeMap<String, i64>,
    inserted: BTreeMap<String, u32>,
    tables_made: u32,
    relations_made: u32,
    /// tables in which some delete was rolled back (D27 guard)
    delete_rolled_back: BTreeSet<String>,
    /// per session: tables it deleted from
    sess_deleted: BTreeMap<u32, BTreeSet<String>>,
    /// tables that received an UPDATE (D25 guard)
    updated_tables: BTreeSet<String>,
    /// true while statements of a batch are being generated
    in_batch: bool,
    /// a VACUUM has run (D29 guard)
    vacuumed: bool,
    /// sessions that re-inserted a unique key inside their transaction: they must commit (U3)
    must_commit: BTreeSet<u32>,
    batch_reused_key: bool,
    /// (table, rendered key) of rows a failed multi-row insert may have left behind
    poisoned: BTreeSet<(String, String)>,
}

pub fn pick_cfg(rng: &mut Rng) -> Cfg {
    let page = *rng.pick(&[4096usize, 4096, 8192, 16384]);
    let cache = match rng.below(3) {
        0 => rng.range(48, 96) as usize,
        1 => rng.range(96, 512) as usize,
        _ => 10000,
    };
    Cfg { page, cache, pool: *rng.pick(&[1usize, 1, 2, 4]), min_keys: rng.range(3, 5) as usize, siblings: rng.range(1, 3) as usize }
}

impl Gen {
    pub fn new(seed: u64, p: Profile) -> Gen {
        Gen {
            rng: Rng::new(seed),
            p,
            model: Model::new(),
            events: vec![],
            sess: BTreeMap::new(),
            next_sess: 1,
            next_val: 100,
            next_id: BTreeMap::new(),
            inserted: BTreeMap::new(),
            tables_made: 0,
            relations_made: 0,
            delete_rolled_back: BTreeSet::new(),
            sess_deleted: BTreeMap::new(),
            updated_tables: BTreeSet::new(),
            in_batch: false,
            poisoned: BTreeSet::new(),
            vacuumed: false,
            must_commit: BTreeSet::new(),
            batch_reused_key: false,
        }
    }

    fn fresh_val(&mut self) -> i64 {
        self.next_val += 1;
        self.next_val
    }

    fn table_def(&mut self) -> Stmt {
        let mut name = format!("t{}", self.tables_made);
        if self.p.ddl_rich && self.rng.chance(60) && !(self.p.has("table_name_reuse_while_session_open") && !self.sess.is_empty()) {
            // a dropped (or never committed) name can be reused
            let probe = self.model.begin();
            let free: Vec<String> = self
                .model
                .tables
                .iter()
                .map(|t| t.name.clone())
                .filter(|n| self.model.find_table(probe, n).is_none() && !self.model.name_in_use_by_other(probe, n))
                .collect();
            self.model.abort(probe);
            if !free.is_empty() {
                name = self.rng.pick(&free).clone();
            }
        }
        self.tables_made += 1;
        let mut cols = vec![ColDef { name: "id".into(), ty: Ty::BigInt, not_null: false, default: None }];
        let with_k = self.p.constraints || self.rng.chance(40);
        if with_k {
            cols.push(ColDef { name: "k".into(), ty: Ty::Int, not_null: self.p.constraints && self.rng.chance(50), default: None });
        }
        cols.push(ColDef { name: "v".into(), ty: Ty::Int, not_null: false, default: None });
        if self.p.text_cols && (self.p.pad_text > 0 || self.rng.chance(50)) {
            cols.push(ColDef { name: "s".into(), ty: Ty::Text, not_null: false, default: None });
        }
        let mut pk = None;
        let mut uniques = vec![];
        if self.p.constraints {
            if self.rng.chance(50) {
                pk = Some(vec!["id".to_string()]);
            }
            if with_k && self.rng.chance(70) {
                if self.rng.chance(25) {
                    uniques.push(vec!["k".to_string(), "v".to_string()]);
                } else {
                    uniques.push(vec!["k".to_string()]);
                }
            }
        }
        if self.p.has("more_than_3_relations") {
            // every index is a relation of its own in the catalog
            let budget = 3u32.saturating_sub(self.relations_made + 1);
            if uniques.len() as u32 > budget {
                uniques.clear();
            }
            if pk.is_some() && (uniques.len() as u32 + 1) > budget {
                pk = None;
            }
        }
        self.relations_made += 1 + uniques.len() as u32 + pk.is_some() as u32;
        Stmt::CreateTable { name, cols, pk, uniques }
    }

    /// Tables visible to `tx`, by model index.
    fn visible_tables(&self, tx: Tx) -> Vec<usize> {
        (0..self.model.tables.len())
            .filter(|i| self.model.find_table(tx, &self.model.tables[*i].name) == Some(*i))
            .collect()
    }

    fn gen_row(&mut self, ti: usize) -> Vec<Val> {
        let mut r = self.gen_row_inner(ti);
        if self.p.reuse_dead_keys && self.rng.chance(50) {
            let t = &self.model.tables[ti];
            let dead: Vec<&crate::model::RowM> = t.rows.iter().filter(|x| self.model.txs[x.creator].status == TxStatus::Aborted && !x.versions.is_empty()).collect();
            if !dead.is_empty() && !t.uniques.is_empty() {
                let d = dead[self.rng.below(dead.len() as u64) as usize];
                let u = &t.uniques[self.rng.below(t.uniques.len() as u64) as usize];
                for c in &u.cols {
                    if *c < r.len() && *c < d.versions[0].vals.len() {
                        r[*c] = d.versions[0].vals[*c].clone();
                    }
                }
            }
        }
        if self.p.pad_text > 0 {
            // uniform cell sizes: no NULLs at all
            let t = self.model.tables[ti].clone();
            return r
                .into_iter()
                .zip(t.cols.iter())
                .map(|(v, c)| if v.is_null() { if c.ty == Ty::Text { Val::T(format!("s{:05}{}", self.fresh_val(), "x".repeat(self.p.pad_text))) } else { Val::I(self.fresh_val()) } } else { v })
                .collect();
        }
        r
    }

    fn gen_row_inner(&mut self, ti: usize) -> Vec<Val> {
        let t = self.model.tables[ti].clone();
        let id = {
            let e = self.next_id.entry(t.name.clone()).or_insert(0);
            *e += 1;
            *e
        };
        let in_unique: BTreeSet<usize> = t.uniques.iter().flat_map(|u| u.cols.iter().copied()).collect();
        let no_null_unique = self.p.has("null_in_unique_column");
        let row: Vec<Val> = t
            .cols
            .iter()
            .map(|c| match c.name.as_str() {
                "id" => {
                    if self.p.colliding_keys && self.rng.chance(30) {
                        Val::I(self.rng.range(1, 5) as i64)
                    } else {
                        Val::I(id + if self.p.colliding_keys { 10 } else { 0 })
                    }
                }
                "k" => {
                    if self.p.colliding_keys {
                        if !c.not_null && self.rng.chance(15) { Val::Null } else { Val::I(self.rng.range(1, 5) as i64) }
                    } else if !c.not_null && self.rng.chance(10) {
                        Val::Null
                    } else {
                        Val::I(self.fresh_val())
                    }
                }
                "v" => {
                    if self.rng.chance(8) { Val::Null } else { Val::I(self.fresh_val()) }
                }
                _ => {
                    if self.rng.chance(10) {
                        Val::Null
                    } else if self.p.big_text {
                        let n = self.fresh_val();
                        let len = self.rng.range(1500, 7000) as usize;
                        Val::T(format!("s{:05}{}", n, "x".repeat(len)))
                    } else if self.p.pad_text > 0 {
                        Val::T(format!("s{:05}{}", self.fresh_val(), "x".repeat(self.p.pad_text)))
                    } else if self.p.exotic_text && self.rng.chance(60) {
                        const TAILS: &[&str] = &[" ", "  ", " x ", "\t", "\u{e9}", "\u{6f22}\u{5b57}", "\u{1F600}", "'", "\"", "\\", "%", "_", "\u{df} ", "\u{a0}", "\n", " NULL", "--", ";", "\u{0301}"];
                        let t = *self.rng.pick(TAILS);
                        Val::T(format!("s{:05}{}", self.fresh_val(), t))
                    } else {
                        Val::T(format!("s{:05}", self.fresh_val()))
                    }
                }
            })
            .collect();
        row.into_iter()
            .enumerate()
            .map(|(i, v)| if v.is_null() && no_null_unique && in_unique.contains(&i) { Val::I(self.fresh_val()) } else { v })
            .collect()
    }

    fn key_str(vals: &[Val], cols: &[usize]) -> String {
        cols.iter().map(|c| vals[*c].render()).collect::<Vec<_>>().join("|")
    }

    /// Does `row` carry, for some unique constraint of the table, a key that any row ever
    /// written to the table (whatever became of it) carried?
    /// The key of `row` is the key of a row that somebody (who has not aborted) has deleted: inserting it
    /// again overwrites the single index entry of that key (finding U2). A key held by a live row is an
    /// ordinary duplicate, a key held by an open transaction's insert a write-write conflict, a key left
    /// by an aborted insert is free.
    fn key_used_before(&self, ti: usize, row: &[Val]) -> bool {
        let t = &self.model.tables[ti];
        t.uniques.iter().any(|u| {
            let k = Self::key_str(row, &u.cols);
            t.rows.iter().any(|r| {
                r.deleters.iter().any(|d| self.model.txs[*d].status != crate::model::TxStatus::Aborted) && r.versions.iter().any(|v| Self::key_str(&v.vals, &u.cols) == k)
            })
        })
    }

    /// Key of `row` equals the key of a row whose insert was rolled back (or left behind by a failed statement).
    fn key_of_rolled_back_insert(&self, ti: usize, row: &[Val]) -> bool {
        let t = &self.model.tables[ti];
        t.uniques.iter().any(|u| {
            let k = Self::key_str(row, &u.cols);
            self.poisoned.contains(&(t.name.clone(), format!("{}:{k}", u.name)))
                || t.rows.iter().any(|r| self.model.txs[r.creator].status == TxStatus::Aborted && r.versions.iter().any(|v| Self::key_str(&v.vals, &u.cols) == k))
        })
    }

    fn gen_pred(&mut self, tx: Tx, ti: usize) -> Option<Pred> {
        let t = self.model.tables[ti].clone();
        let rows = self.model.visible_rows(tx, ti);
        if self.rng.chance(15) {
            return None;
        }
        let atom = |g: &mut Gen| -> Pred {
            let c = g.rng.pick(&t.cols).clone();
            let ci = t.col(&c.name).unwrap();
            // take the literal from a live row most of the time, so predicates select something
            let lit = if !rows.is_empty() && g.rng.chance(80) {
                rows[g.rng.below(rows.len() as u64) as usize].1[ci].clone()
            } else {
                match c.ty {
                    Ty::Text => Val::T(format!("s{:05}", g.rng.range(100, 200))),
                    _ => Val::I(g.rng.range(0, 200) as i64),
                }
            };
            if lit.is_null() {
                // `IS NOT NULL` is not generated: the engine evaluates it as TRUE for every row, a
                // pure query-semantics defect (property C05, outside this technique).
                return Pred::IsNull(c.name.clone());
            }
            let op = *g.rng.pick(&[Op::Eq, Op::Eq, Op::Eq, Op::Ne, Op::Lt, Op::Le, Op::Gt, Op::Ge]);
            Pred::Cmp(c.name.clone(), op, lit)
        };
        let a = atom(self);
        match self.rng.below(10) {
            0 | 1 => Some(Pred::And(Box::new(a), Box::new(atom(self)))),
            2 | 3 => Some(Pred::Or(Box::new(a), Box::new(atom(self)))),
            _ => Some(a),
        }
    }

    fn gen_read(&mut self, tx: Tx) -> Option<Stmt> {
        let ts = self.visible_tables(tx);
        if ts.is_empty() {
            return None;
        }
        let ti = *self.rng.pick(&ts);
        let t = self.model.tables[ti].clone();
        let pred = self.gen_pred(tx, ti);
        Some(match self.rng.below(10) {
            0 => Stmt::Count { table: t.name.clone(), pred },
            1..=4 => Stmt::Select { table: t.name.clone(), cols: vec![], pred },
            _ => {
                let mut cols: Vec<String> = t.cols.iter().filter(|_| self.rng.chance(60)).map(|c| c.name.clone()).collect();
                if cols.is_empty() {
                    cols.push("id".into());
                }
                Stmt::Select { table: t.name.clone(), cols, pred }
            }
        })
    }

    /// A write statement that the model accepts and that trips no active guard.
    fn gen_write(&mut self, tx: Tx, in_session: Option<u32>) -> Option<Stmt> {
        let ts = self.visible_tables(tx);
        if ts.is_empty() {
            return None;
        }
        for _attempt in 0..6 {
            let ti = *self.rng.pick(&ts);
            let t = self.model.tables[ti].clone();
            let others_active = self.model.active().iter().any(|a| *a != tx);
            let kind = self.rng.below(10);
            let stmt = if kind < 5 {
                let n_ins = *self.inserted.get(&t.name).unwrap_or(&0);
                let room = self.p.max_inserts_per_table.saturating_sub(n_ins);
                if room == 0 {
                    continue;
                }
                let n = (if self.p.pad_text > 0 { self.rng.range(2, 6) } else if self.rng.chance(30) { self.rng.range(2, 3) } else { 1 }).min(room as u64);
                let rows: Vec<Vec<Val>> = (0..n).map(|_| self.gen_row(ti)).collect();
                if self.p.has("unique_key_reuse_while_session_open") && (!self.sess.is_empty() || self.in_batch) && rows.iter().any(|r| self.key_used_before(ti, r)) {
                    // U2 / U2b / U3: a unique key is reused only by single autocommit statements while nobody is open
                    continue;
                }
                if self.p.has("collision_with_key_of_rolled_back_insert") && rows.iter().any(|r| self.key_of_rolled_back_insert(ti, r)) {
                    continue;
                }
                Stmt::Insert { table: t.name.clone(), rows }
            } else if kind < 8 || !self.p.updates {
                if self.p.has("delete_after_rolled_back_delete") && self.delete_rolled_back.contains(&t.name) {
                    continue;
                }
                if self.p.has("delete_of_updated_row_in_multi_statement_txn") && self.updated_tables.contains(&t.name) && (in_session.is_some() || self.in_batch) {
                    continue;
                }
                let pred = self.gen_pred(tx, ti);
                if self.p.has("delete_of_own_insert_in_open_txn") && (in_session.is_some() || self.in_batch) {
                    // F5: recovery undoes an open transaction's insert+delete of one row in log order
                    let hits_own = self.model.visible_rows(tx, ti).iter().any(|(ri, vals)| {
                        self.model.tables[ti].rows[*ri].creator == tx && t.matches_pub(&pred, vals)
                    });
                    if hits_own {
                        continue;
                    }
                }
                Stmt::Delete { table: t.name.clone(), pred }
            } else {
                if self.p.has("update_inside_open_or_overlapping_txn") && (in_session.is_some() || others_active) {
                    continue;
                }
                if self.p.has("update_on_table_with_unique_index") && !t.uniques.is_empty() {
                    continue;
                }
                if self.p.has("delete_of_updated_row_in_multi_statement_txn") && self.in_batch {
                    continue;
                }
                let unique_cols: BTreeSet<usize> = t.uniques.iter().flat_map(|u| u.cols.iter().copied()).collect();
                let cands: Vec<&ColDef> = t
                    .cols
                    .iter()
                    .enumerate()
                    .filter(|(i, c)| c.name != "id" && !(self.p.has("update_of_uniquely_constrained_column") && unique_cols.contains(i)))
                    .map(|(_, c)| c)
                    .collect();
                if cands.is_empty() {
                    continue;
                }
                let c = (*self.rng.pick(&cands)).clone();
                let e = match c.ty {
                    Ty::Text if self.p.pad_text > 0 => Expr::Lit(Val::T(format!("s{:05}{}", self.fresh_val(), "x".repeat(self.p.pad_text)))),
                    Ty::Text => Expr::Lit(Val::T(format!("s{:05}", self.fresh_val()))),
                    _ => {
                        if self.rng.chance(30) && !(self.p.has("arithmetic_update_on_indexed_table") && !t.uniques.is_empty()) {
                            Expr::ColPlus(c.name.clone(), 1000)
                        } else if !c.not_null && self.p.pad_text == 0 && self.rng.chance(10) {
                            Expr::Lit(Val::Null)
                        } else {
                            Expr::Lit(Val::I(self.fresh_val()))
                        }
                    }
                };
                let pred = self.gen_pred(tx, ti);
                Stmt::Update { table: t.name.clone(), set: vec![(c.name.clone(), e)], pred }
            };
            // consult the model: must be accepted, and must not create a hazard
            let h0 = self.model.hazards.len();
            let exp = self.model.run(tx, &stmt, false);
            let hazard = self.model.hazards.len() > h0;
            self.model.hazards.truncate(h0);
            if hazard && (self.p.has("concurrent_writers_same_row") || self.p.has("concurrent_inserts_same_key")) {
                continue;
            }
            match exp {
                // a DELETE that meets the pending (or later committed) delete of another transaction is
                // refused with a write-write conflict; the loser rolls back (D8 / D27, repaired for deletes)
                Expect::Fail("write conflict") if !self.p.has("concurrent_deleters_same_row") && !matches!(stmt, Stmt::Update { .. }) => return Some(stmt),
                Expect::Fail(_) | Expect::Any => continue,
                _ => {}
            }
            if let Stmt::Update { table, .. } = &stmt {
                self.updated_tables.insert(table.clone());
            }
            if let Stmt::Insert { table, rows } = &stmt {
                *self.inserted.entry(table.clone()).or_insert(0) += rows.len() as u32;
            }
            if let (Stmt::Delete { table, .. }, Some(k)) = (&stmt, in_session) {
                if exp != Expect::Count(0) {
                    self.sess_deleted.entry(k).or_default().insert(table.clone());
                }
            }
            return Some(stmt);
        }
        None
    }

    /// A statement generated to be rejected.
    fn gen_failing(&mut self, tx: Tx, in_session: bool) -> Option<Stmt> {
        let ts = self.visible_tables(tx);
        let kind = self.rng.below(7);
        let stmt = match kind {
            6 if !ts.is_empty() && self.p.updates && !self.in_batch => {
                // UPDATE that must be rejected as a whole: NULL into a NOT NULL column
                let others_active = self.model.active().iter().any(|a| *a != tx);
                if self.p.has("update_inside_open_or_overlapping_txn") && (in_session || others_active) {
                    return None;
                }
                let cands: Vec<usize> = ts.iter().copied().filter(|ti| self.model.tables[*ti].uniques.is_empty() && self.model.tables[*ti].cols.iter().any(|c| c.not_null)).collect();
                if cands.is_empty() {
                    return None;
                }
                let ti = *self.rng.pick(&cands);
                let t = self.model.tables[ti].clone();
                if self.model.visible_rows(tx, ti).is_empty() {
                    return None;
                }
                let c = t.cols.iter().find(|c| c.not_null).unwrap().clone();
                self.updated_tables.insert(t.name.clone());
                Stmt::Update { table: t.name.clone(), set: vec![(c.name.clone(), Expr::Lit(Val::Null))], pred: None }
            }
            0 => Stmt::Select { table: "nosuch".into(), cols: vec![], pred: None },
            1 if !ts.is_empty() => {
                let t = &self.model.tables[*self.rng.pick(&ts)];
                Stmt::Select { table: t.name.clone(), cols: vec!["nocol".into()], pred: None }
            }
            2 if !ts.is_empty() => {
                // wrong column count
                let t = &self.model.tables[*self.rng.pick(&ts)];
                Stmt::Insert { table: t.name.clone(), rows: vec![vec![Val::I(1)]] }
            }
            3 if !ts.is_empty() => {
                // constraint violation: re-insert an existing unique key / NULL into NOT NULL
                let cands: Vec<usize> = ts.iter().copied().filter(|ti| !self.model.tables[*ti].uniques.is_empty() || self.model.tables[*ti].cols.iter().any(|c| c.not_null)).collect();
                if cands.is_empty() {
                    return None;
                }
                let ti = *self.rng.pick(&cands);
                let t = self.model.tables[ti].clone();
                let n_ins = *self.inserted.get(&t.name).unwrap_or(&0);
                if n_ins + 2 > self.p.max_inserts_per_table {
                    return None;
                }
                let rows = self.model.visible_rows(tx, ti);
                let mut r = self.gen_row(ti);
                let pick_u = if t.uniques.is_empty() { None } else { Some(t.uniques[self.rng.below(t.uniques.len() as u64) as usize].clone()) };
                let prefer_null = t.cols.iter().any(|c| c.not_null) && self.rng.chance(35);
                if let (Some(u), true, false) = (pick_u.as_ref(), !rows.is_empty(), prefer_null) {
                    let src = &rows[self.rng.below(rows.len() as u64) as usize].1;
                    for c in &u.cols {
                        r[*c] = src[*c].clone();
                    }
                } else {
                    // NULL into a NOT NULL column that no index covers (finding F1 guard)
                    let in_unique: BTreeSet<usize> = t.uniques.iter().flat_map(|u| u.cols.iter().copied()).collect();
                    match t.cols.iter().enumerate().position(|(i, c)| c.not_null && !(self.p.has("null_in_unique_column") && in_unique.contains(&i))) {
                        Some(ci) => r[ci] = Val::Null,
                        None => return None,
                    }
                }
                if self.p.has("collision_with_key_of_rolled_back_insert") && self.key_of_rolled_back_insert(ti, &r) {
                    return None;
                }
                let multi = self.rng.chance(40) && !(in_session && self.p.has("failing_multi_row_statement_in_session"));
                let stmt = if multi {
                    let good = self.gen_row(ti);
                    if self.key_used_before(ti, &good) {
                        return None;
                    }
                    for u in &t.uniques {
                        self.poisoned.insert((t.name.clone(), format!("{}:{}", u.name, Self::key_str(&good, &u.cols))));
                    }
                    Stmt::Insert { table: t.name.clone(), rows: vec![good, r] }
                } else {
                    Stmt::Insert { table: t.name.clone(), rows: vec![r] }
                };
                stmt
            }
            4 => Stmt::DropTable { name: "nosuch".into(), cascade: false },
            5 if !ts.is_empty() => {
                let t = &self.model.tables[*self.rng.pick(&ts)];
                Stmt::CreateTable { name: t.name.clone(), cols: vec![ColDef { name: "id".into(), ty: Ty::BigInt, not_null: false, default: None }], pk: None, uniques: vec![] }
            }
            _ => return None,
        };
        let h0 = self.model.hazards.len();
        let exp = self.model.run(tx, &stmt, false);
        self.model.hazards.truncate(h0);
        if matches!(exp, Expect::Fail(_)) { Some(stmt) } else { None }
    }

    fn poison_rejected_inserts(&mut self, tx: Tx, stmts: &[Stmt]) {
        // rows of a rejected INSERT may stay behind physically (findings D23 / U1): remember their keys
        for s in stmts {
            if let Stmt::Insert { table, rows } = s {
                if let Some(ti) = self.model.find_table(tx, table) {
                    let t = self.model.tables[ti].clone();
                    for r in rows {
                        if r.len() != t.cols.len() {
                            continue;
                        }
                        for u in &t.uniques {
                            self.poisoned.insert((t.name.clone(), format!("{}:{}", u.name, Self::key_str(r, &u.cols))));
                        }
                    }
                }
            }
        }
    }

    /// Re-probe the constraints of a table with statements that must be rejected: a duplicate of
    /// an existing key for one of its UNIQUE constraints, a NULL for one of its NOT NULL columns.
    fn probe_constraints(&mut self, ti: usize) {
        let t = self.model.tables[ti].clone();
        if *self.inserted.get(&t.name).unwrap_or(&0) + 3 > self.p.max_inserts_per_table {
            return;
        }
        let tx = self.model.begin();
        let rows = self.model.visible_rows(tx, ti);
        let mut probes: Vec<Stmt> = vec![];
        if !rows.is_empty() {
            for u in &t.uniques {
                let src = rows[self.rng.below(rows.len() as u64) as usize].1.clone();
                let mut r = self.gen_row(ti);
                for c in &u.cols {
                    r[*c] = src[*c].clone();
                }
                if !(self.p.has("collision_with_key_of_rolled_back_insert") && self.key_of_rolled_back_insert(ti, &r)) {
                    probes.push(Stmt::Insert { table: t.name.clone(), rows: vec![r] });
                }
            }
        }
        let in_unique: BTreeSet<usize> = t.uniques.iter().flat_map(|u| u.cols.iter().copied()).collect();
        for (ci, c) in t.cols.iter().enumerate() {
            if c.not_null && !(self.p.has("null_in_unique_column") && in_unique.contains(&ci)) {
                let mut r = self.gen_row(ti);
                r[ci] = Val::Null;
                probes.push(Stmt::Insert { table: t.name.clone(), rows: vec![r] });
            }
        }
        let mut keep = vec![];
        for s in probes {
            let h0 = self.model.hazards.len();
            let e = self.model.run(tx, &s, false);
            let hz = self.model.hazards.len() > h0;
            self.model.hazards.truncate(h0);
            if matches!(e, Expect::Fail(_)) && !hz {
                keep.push(s);
            }
        }
        self.model.abort(tx);
        for s in keep {
            if self.rng.chance(70) {
                // an earlier probe may have poisoned this key (rows of a rejected INSERT can stay behind)
                if let Stmt::Insert { rows, .. } = &s {
                    if self.p.has("collision_with_key_of_rolled_back_insert") && rows.iter().any(|r| self.key_of_rolled_back_insert(ti, r)) {
                        continue;
                    }
                }
                self.emit(Event::Auto(s));
            }
        }
    }

    /// Plan-variant families over the current committed state (C06).
    fn gen_probes(&mut self) {
        let tx = self.model.begin();
        let ts = self.visible_tables(tx);
        let mut out = vec![];
        for ti in &ts {
            let t = self.model.tables[*ti].clone();
            let rows = self.model.visible_rows(tx, *ti);
            for (ci, c) in t.cols.iter().enumerate() {
                if c.ty == Ty::Text || !self.rng.chance(60) {
                    continue;
                }
                let vals: Vec<i64> = rows.iter().filter_map(|(_, r)| if let Val::I(x) = r[ci] { Some(x) } else { None }).collect();
                let v = if !vals.is_empty() && self.rng.chance(85) { *self.rng.pick(&vals) + *self.rng.pick(&[0i64, 0, 0, 1, -1]) } else { self.rng.range(0, 200) as i64 };
                out.push(Probe::Point { table: t.name.clone(), col: c.name.clone(), v });
                if !vals.is_empty() {
                    let a = *self.rng.pick(&vals);
                    let b = *self.rng.pick(&vals);
                    out.push(Probe::Range { table: t.name.clone(), col: c.name.clone(), lo: a.min(b), hi: a.max(b) });
                }
            }
        }
        if ts.len() >= 2 {
            let l = self.model.tables[ts[0]].clone();
            let r = self.model.tables[ts[1]].clone();
            for (a, b) in [(&l, &r), (&r, &l)] {
                let lc: Vec<&ColDef> = a.cols.iter().filter(|c| c.ty != Ty::Text && c.name != "id").collect();
                let rc: Vec<&ColDef> = b.cols.iter().filter(|c| c.ty != Ty::Text).collect();
                if !lc.is_empty() && !rc.is_empty() && self.rng.chance(70) {
                    let x = (*self.rng.pick(&lc)).clone();
                    let y = (*self.rng.pick(&rc)).clone();
                    if self.p.has("join_on_column_holding_null") {
                        // J1: a NULL in the join column of either input makes the (merge) join drop matches
                        let ai = self.model.find_table(tx, &a.name).unwrap();
                        let bi = self.model.find_table(tx, &b.name).unwrap();
                        let xi = a.col(&x.name).unwrap();
                        let yi = b.col(&y.name).unwrap();
                        if self.model.visible_rows(tx, ai).iter().any(|(_, r)| r[xi].is_null()) || self.model.visible_rows(tx, bi).iter().any(|(_, r)| r[yi].is_null()) {
                            continue;
                        }
                    }
                    out.push(Probe::Join { left: a.name.clone(), right: b.name.clone(), lcol: x.name, rcol: y.name });
                }
            }
        }
        self.model.abort(tx);
        for p in out {
            self.emit(Event::Probe(p));
        }
    }

    fn emit(&mut self, ev: Event) {
        // keep the generator's model in step (assuming a correct engine)
        match &ev {
            Event::Auto(s) => {
                let tx = self.model.begin();
                let e = self.model.run(tx, s, false);
                if matches!(e, Expect::Fail(_)) {
                    self.poison_rejected_inserts(tx, std::slice::from_ref(s));
                    self.model.abort(tx);
                } else {
                    self.model.run(tx, s, true);
                    self.model.commit(tx);
                }
            }
            Event::Batch(ss) => {
                let mut m2 = self.model.clone();
                let tx = m2.begin();
                let mut ok = true;
                for s in ss {
                    if matches!(m2.run(tx, s, false), Expect::Fail(_)) {
                        ok = false;
                        break;
                    }
                    m2.run(tx, s, true);
                }
                if ok {
                    m2.commit(tx);
                    self.model = m2;
                } else {
                    let tx0 = self.model.begin();
                    self.poison_rejected_inserts(tx0, ss);
                    self.model.abort(tx0);
                    // deletes of a failed batch are rolled back (finding D27 guard)
                    for s in ss {
                        if let Stmt::Delete { table, .. } = s {
                            self.delete_rolled_back.insert(table.clone());
                        }
                    }
                }
            }
            Event::Begin(k) => {
                let tx = self.model.begin();
                self.sess.insert(*k, tx);
            }
            Event::Exec(k, s) => {
                let tx = self.sess[k];
                let e = self.model.run(tx, s, false);
                if !matches!(e, Expect::Fail(_)) {
                    self.model.run(tx, s, true);
                } else if e == Expect::Fail("write conflict") {
                    // the loser of a write-write conflict rolls back at once (the executor does it)
                    self.sess.remove(k);
                    if let Some(ts) = self.sess_deleted.remove(k) {
                        self.delete_rolled_back.extend(ts);
                    }
                    self.must_commit.remove(k);
                    self.model.abort(tx);
                } else {
                    self.poison_rejected_inserts(tx, std::slice::from_ref(s));
                }
            }
            Event::Commit(k) => {
                let tx = self.sess.remove(k).unwrap();
                self.sess_deleted.remove(k);
                if self.model.txs[tx].status == TxStatus::Aborted {
                    // aborted by VACUUM: stays aborted whatever the engine answers
                } else if self.model.commit_must_fail(tx) {
                    self.model.abort(tx);
                } else {
                    self.model.commit(tx);
                }
            }
            Event::Abort(k) | Event::DropSession(k) => {
                let tx = self.sess.remove(k).unwrap();
                if let Some(ts) = self.sess_deleted.remove(k) {
                    self.delete_rolled_back.extend(ts);
                }
                self.model.abort(tx);
            }
            Event::Reopen(_) => {
                let ks: Vec<u32> = self.sess.keys().copied().collect();
                for k in ks {
                    let tx = self.sess.remove(&k).unwrap();
                    if let Some(ts) = self.sess_deleted.remove(&k) {
                        self.delete_rolled_back.extend(ts);
                    }
                    self.model.abort(tx);
                }
            }
            Event::Vacuum => {
                // VACUUM aborts every open transaction; the session handles live on
                let ks: Vec<u32> = self.sess.keys().copied().collect();
                for k in ks {
                    let tx = self.sess[&k];
                    if let Some(ts) = self.sess_deleted.remove(&k) {
                        self.delete_rolled_back.extend(ts);
                    }
                    self.model.abort(tx);
                }
            }
            _ => {}
        }
        self.events.push(ev);
    }

    fn end_session(&mut self, k: u32) {
        if self.must_commit.remove(&k) {
            self.emit(Event::Commit(k));
            return;
        }
        let r = self.rng.below(100) as u32;
        if r < self.p.p_rollback {
            self.emit(Event::Abort(k));
        } else if r < self.p.p_rollback + self.p.p_drop_session {
            self.emit(Event::DropSession(k));
        } else {
            self.emit(Event::Commit(k));
        }
    }

    pub fn generate(mut self, cfg_for_reopen: impl Fn(&mut Rng) -> Cfg) -> Vec<Event> {
        // every history starts with a table and a few rows. (Until finding D26 was repaired no session
        // began before these two commits; now one history in six opens a session before the CREATE
        // TABLE - while nothing has committed yet - and one in six between the CREATE and the INSERT.)
        let early = self.rng.below(6);
        if early == 0 && self.p.max_sessions > 0 {
            let k = self.next_sess;
            self.next_sess += 1;
            self.emit(Event::Begin(k));
        }
        let t0 = self.table_def();
        self.emit(Event::Auto(t0));
        if early == 1 && self.p.max_sessions > 0 {
            let k = self.next_sess;
            self.next_sess += 1;
            self.emit(Event::Begin(k));
        }
        if self.p.has("uncheckpointed_create_with_open_txn") {
            self.emit(Event::Flush);
        }
        let tx = self.model.begin();
        let ts = self.visible_tables(tx);
        self.model.abort(tx);
        let n0 = self.rng.range(1, 3);
        let mut rows: Vec<Vec<Val>> = vec![];
        for _ in 0..n0 {
            let r = self.gen_row(ts[0]);
            let tx = self.model.begin();
            let mut trial = rows.clone();
            trial.push(r.clone());
            let ok = !matches!(self.model.run(tx, &Stmt::Insert { table: "t0".into(), rows: trial }, false), Expect::Fail(_));
            self.model.abort(tx);
            if ok {
                rows.push(r);
            }
        }
        if rows.is_empty() {
            rows.push(self.gen_row(ts[0]));
        }
        *self.inserted.entry("t0".into()).or_insert(0) += rows.len() as u32;
        self.emit(Event::Auto(Stmt::Insert { table: "t0".into(), rows }));

        let n_events = self.rng.range(self.p.min_events as u64, self.p.max_events as u64) as usize;
        let total_w = self.p.w_session + self.p.w_auto + self.p.w_batch + self.p.w_check + self.p.w_flush + self.p.w_reopen + self.p.w_vacuum + self.p.w_ddl + self.p.w_failing + self.p.w_chaos;
        let mut guard = 0;
        let burst_at = if self.p.read_burst > 0 { self.rng.below(n_events as u64) as usize } else { usize::MAX };
        let mut burst_done = false;
        let mut burst_emitted = 0usize;
        let mut emitted_main = 0usize;
        while emitted_main < n_events && guard < n_events * 20 {
            guard += 1;
            emitted_main = self.events.len().saturating_sub(burst_emitted);
            if !burst_done && emitted_main >= burst_at {
                burst_done = true;
                for _ in 0..self.p.read_burst {
                    let tx = self.model.begin();
                    let s = self.gen_read(tx);
                    self.model.abort(tx);
                    if let Some(s) = s {
                        self.emit(Event::Auto(s));
                        burst_emitted += 1;
                    }
                }
                continue;
            }
            let mut r = self.rng.below(total_w as u64) as u32;
            macro_rules! take {
                ($w:expr) => {{
                    let hit = r < $w;
                    if !hit {
                        r -= $w;
                    }
                    hit
                }};
            }
            if take!(self.p.w_session) {
                // session activity
                let open: Vec<u32> = self.sess.keys().copied().collect();
                let want_new = open.is_empty() || ((open.len() as u32) < self.p.max_sessions && self.must_commit.is_empty() && self.rng.chance(25));
                if want_new {
                    let k = self.next_sess;
                    self.next_sess += 1;
                    self.emit(Event::Begin(k));
                    continue;
                }
                let k = *self.rng.pick(&open);
                let tx = self.sess[&k];
                match self.rng.below(10) {
                    0 | 1 => self.end_session(k),
                    2..=5 => {
                        if let Some(s) = self.gen_read(tx) {
                            self.emit(Event::Exec(k, s));
                        }
                    }
                    _ => {
                        if let Some(s) = self.gen_write(tx, Some(k)) {
                            self.emit(Event::Exec(k, s));
                        }
                    }
                }
            } else if take!(self.p.w_auto) {
                let tx = self.model.begin();
                let s = if self.rng.chance(40) { self.gen_read(tx) } else { self.gen_write(tx, None) };
                self.model.abort(tx);
                if let Some(s) = s {
                    self.emit(Event::Auto(s));
                }
            } else if take!(self.p.w_batch) {
                // generate against the model, applying as we go, then restore it
                let saved = self.model.clone();
                self.in_batch = true;
                self.batch_reused_key = false;
                let tx = self.model.begin();
                let n = self.rng.range(2, 4);
                let mut ss = vec![];
                for _ in 0..n {
                    let s = if self.rng.chance(30) { self.gen_read(tx) } else { self.gen_write(tx, None) };
                    if let Some(s) = s {
                        self.model.run(tx, &s, true);
                        ss.push(s);
                    }
                }
                if self.p.w_failing > 0 && !self.batch_reused_key && self.rng.chance(25) {
                    if let Some(s) = self.gen_failing(tx, false) {
                        // appended where it was validated (the model state at any earlier position differs)
                        ss.push(s);
                        if self.rng.chance(50) {
                            if let Some(r) = self.gen_read(tx) {
                                ss.push(r);
                            }
                        }
                    }
                }
                self.model = saved;
                self.in_batch = false;
                if ss.len() >= 2 {
                    self.emit(Event::Batch(ss));
                }
            } else if take!(self.p.w_check) {
                self.emit(Event::Check);
                if self.p.plan_probes {
                    self.gen_probes();
                }
            } else if take!(self.p.w_flush) {
                // F4: no checkpoint while an open transaction has uncommitted changes
                // (idle sessions may stay open across it)
                if self.p.has("checkpoint_with_open_txn") && self.sess.values().any(|tx| self.model.txs[*tx].writes > 0) {
                    continue;
                }
                self.emit(Event::Flush);
            } else if take!(self.p.w_reopen) {
                let c = cfg_for_reopen(&mut self.rng);
                self.emit(Event::Reopen(c));
                self.emit(Event::Check);
                // constraints and indexes survive the reopen: re-probe them
                let probe = self.model.begin();
                let ts = self.visible_tables(probe);
                self.model.abort(probe);
                for ti in ts {
                    if self.rng.chance(50) {
                        self.probe_constraints(ti);
                    }
                }
            } else if take!(self.p.w_vacuum) {
                // D14: VACUUM removes rows whose delete was rolled back (or is pending: VACUUM aborts it)
                if self.p.has("vacuum_after_rolled_back_delete") && (!self.delete_rolled_back.is_empty() || !self.sess_deleted.is_empty()) {
                    continue;
                }
                if !self.p.zombie_sessions {
                    // V1: whatever a session does after VACUUM aborted it is visible at once
                    let open: Vec<u32> = self.sess.keys().copied().collect();
                    for k in open {
                        self.end_session(k);
                    }
                }
                self.emit(Event::Check);
                self.vacuumed = true;
                self.emit(Event::Vacuum);
                // zombie_sessions: the transactions VACUUM has just aborted are ended by their clients
                // straight away (their COMMIT may be answered either way; nothing they wrote may appear)
                let open: Vec<u32> = self.sess.keys().copied().collect();
                for k in open {
                    self.must_commit.remove(&k);
                    if !self.p.has("statement_in_session_after_vacuum_aborted_it") && self.rng.chance(60) {
                        // the client has not noticed yet and goes on: whatever is answered, nothing of
                        // it may ever be seen by anybody (finding V1, repaired)
                        for _ in 0..self.rng.range(1, 2) {
                            let t = self.model.begin();
                            let s = if self.rng.chance(30) { self.gen_read(t) } else { self.gen_write(t, None) };
                            self.model.abort(t);
                            if let Some(s) = s {
                                self.events.push(Event::Exec(k, s));
                            }
                        }
                    }
                    self.end_session(k);
                }
                self.emit(Event::Check);
            } else if take!(self.p.w_ddl) {
                let tx = self.model.begin();
                let ts = self.visible_tables(tx);
                self.model.abort(tx);
                let mut in_sess: Option<u32> = if !self.sess.is_empty() && self.rng.chance(50) { Some(*self.rng.pick(&self.sess.keys().copied().collect::<Vec<_>>())) } else { None };
                if self.p.has("ddl_concurrent_with_open_session") {
                    // DDL only while no other transaction is open
                    match self.sess.len() {
                        0 => in_sess = None,
                        1 => in_sess = Some(*self.sess.keys().next().unwrap()),
                        _ => continue,
                    }
                }
                if self.p.has("ddl_after_vacuum") && self.vacuumed {
                    continue;
                }
                if self.p.has("drop_only_after_checkpoint") && !ts.is_empty() && self.sess.is_empty() && self.rng.chance(35) {
                    // crash profiles: DROP TABLE only of a table without log records since the last
                    // checkpoint (D6c): right after a checkpoint, in autocommit, nobody else open
                    let ti = *self.rng.pick(&ts);
                    let name = self.model.tables[ti].name.clone();
                    self.emit(Event::Flush);
                    let cascade = self.events.len() % 2 == 0;
                    self.emit(Event::Auto(Stmt::DropTable { name, cascade }));
                    continue;
                }
                let rel_ok = !self.p.has("more_than_3_relations") || self.relations_made < 3;
                if rel_ok && (self.tables_made as usize) < self.p.max_tables as usize && (ts.len() < 2 || self.rng.chance(60)) {
                    if self.p.has("uncheckpointed_create_with_open_txn") && (in_sess.is_some() || !self.sess.is_empty()) {
                        continue;
                    }
                    if self.p.has("create_table_inside_session") && in_sess.is_some() {
                        continue; // L1: a rolled-back CREATE TABLE leaks its root page
                    }
                    let s = self.table_def();
                    match in_sess {
                        Some(k) => self.emit(Event::Exec(k, s)),
                        None => {
                            self.emit(Event::Auto(s));
                            if self.p.has("uncheckpointed_create_with_open_txn") {
                                self.emit(Event::Flush);
                            }
                        }
                    }
                } else if self.p.ddl_rich && !self.p.has("alter_drop_column") && !ts.is_empty() && self.sess.is_empty() && self.rng.chance(12) {
                    // ALTER ... DROP COLUMN of the last column (dropping a middle column is open finding D17)
                    let ti = *self.rng.pick(&ts);
                    let t = self.model.tables[ti].clone();
                    let last = t.cols.len() - 1;
                    let in_unique = t.uniques.iter().any(|u| u.cols.contains(&last));
                    if t.cols.len() >= 3 && !in_unique {
                        let cname = t.cols[last].name.clone();
                        let s = Stmt::Alter { table: t.name.clone(), action: AlterAction::DropColumn(cname.clone()) };
                        let tx = self.model.begin();
                        let exp = self.model.run(tx, &s, false);
                        self.model.abort(tx);
                        if matches!(exp, Expect::Ddl) {
                            self.emit(Event::Auto(s));
                            // the dropped name must be gone for every kind of statement
                            self.emit(Event::Auto(Stmt::Select { table: t.name.clone(), cols: vec![cname.clone()], pred: None }));
                            self.emit(Event::Auto(Stmt::CreateIndex { name: format!("ixd{}", self.next_val), table: t.name.clone(), cols: vec![cname.clone()] }));
                            self.next_val += 1;
                            self.emit(Event::Check);
                        }
                    }
                } else if self.p.ddl_rich && !ts.is_empty() && self.sess.is_empty() && self.rng.chance(25) {
                    // ALTER ... SET / DROP NOT NULL (autocommit, nobody else open)
                    let ti = *self.rng.pick(&ts);
                    let t = self.model.tables[ti].clone();
                    let c = self.rng.pick(&t.cols).clone();
                    let action = if self.rng.chance(65) { AlterAction::SetNotNull(c.name.clone()) } else { AlterAction::DropNotNull(c.name.clone()) };
                    let s = Stmt::Alter { table: t.name.clone(), action };
                    let tx = self.model.begin();
                    let exp = self.model.run(tx, &s, false);
                    self.model.abort(tx);
                    if matches!(exp, Expect::Ddl) {
                        self.emit(Event::Auto(s));
                        self.probe_constraints(ti);
                    }
                } else if self.p.ddl_rich && rel_ok && !ts.is_empty() && self.rng.chance(35) {
                    // CREATE UNIQUE INDEX on a column of an existing table
                    let ti = *self.rng.pick(&ts);
                    let t = self.model.tables[ti].clone();
                    let c = self.rng.pick(&t.cols).clone();
                    if self.p.has("create_index_inside_session") && !self.sess.is_empty() {
                        continue; // X1, X1b: also an idle older session loses the table
                    }
                    if self.p.has("null_in_unique_column") {
                        // X2: a NULL already stored in the column makes the index build fail
                        let ci = t.col(&c.name).unwrap();
                        let probe = self.model.begin();
                        let has_null = self.model.visible_rows(probe, ti).iter().any(|(_, v)| v[ci].is_null());
                        self.model.abort(probe);
                        if has_null {
                            continue;
                        }
                    }
                    let mut icols = vec![c.name.clone()];
                    if self.rng.chance(40) {
                        // multi-column index, columns in any order (not necessarily the table's)
                        let others: Vec<&ColDef> = t.cols.iter().filter(|x| x.name != c.name).collect();
                        if !others.is_empty() {
                            let o = (*self.rng.pick(&others)).clone();
                            let schema_order = t.col(&c.name).unwrap() < t.col(&o.name).unwrap();
                            // X3: columns of different types listed out of table order panic on the first duplicate
                            let free_order = !self.p.has("mixed_type_index_out_of_table_order") || (o.ty == c.ty);
                            let c_first = if free_order { self.rng.chance(50) } else { schema_order };
                            if c_first { icols.push(o.name.clone()) } else { icols.insert(0, o.name.clone()) }
                        }
                    }
                    if self.p.has("null_in_unique_column") {
                        let cis: Vec<usize> = icols.iter().map(|n| t.col(n).unwrap()).collect();
                        let probe = self.model.begin();
                        let has_null = self.model.visible_rows(probe, ti).iter().any(|(_, v)| cis.iter().any(|ci| v[*ci].is_null()));
                        self.model.abort(probe);
                        if has_null {
                            continue;
                        }
                    }
                    let s = Stmt::CreateIndex { name: format!("ix{}", self.next_val), table: t.name.clone(), cols: icols };
                    self.next_val += 1;
                    let tx = match in_sess { Some(k) => self.sess[&k], None => self.model.begin() };
                    let exp = self.model.run(tx, &s, false);
                    if in_sess.is_none() {
                        self.model.abort(tx);
                    }
                    if matches!(exp, Expect::Ddl) {
                        self.relations_made += 1;
                        match in_sess {
                            Some(k) => self.emit(Event::Exec(k, s)),
                            None => {
                                self.emit(Event::Auto(s));
                                if self.sess.is_empty() {
                                    self.probe_constraints(ti);
                                }
                            }
                        }
                    }
                } else if !ts.is_empty() && self.rng.chance(50) && self.p.has("drop_table_before_crash") {
                    // crash profiles: DROP TABLE only of a table without log records since the last
                    // checkpoint (D6c), i.e. right after a checkpoint, in autocommit, nobody else open
                    if self.sess.is_empty() && self.p.has("drop_only_after_checkpoint") {
                        let ti = *self.rng.pick(&ts);
                        let name = self.model.tables[ti].name.clone();
                        self.emit(Event::Flush);
                        let cascade = self.events.len() % 2 == 0;
                        self.emit(Event::Auto(Stmt::DropTable { name, cascade }));
                    }
                } else if ts.len() > 1 && self.rng.chance(50) && !self.p.has("drop_table_before_crash") {
                    let ti = *self.rng.pick(&ts);
                    let name = self.model.tables[ti].name.clone();
                    // only drop a table no open session has touched
                    let busy = self.model.tables[ti].rows.iter().any(|r| {
                        r.versions.iter().map(|v| v.writer).chain(r.deleters.iter().copied()).chain([r.creator]).any(|w| self.model.txs[w].status == TxStatus::Active)
                    }) || self.model.txs[self.model.tables[ti].creator].status == TxStatus::Active;
                    let being_dropped = self.model.tables[ti].droppers.iter().any(|d| self.model.txs[*d].status == TxStatus::Active);
                    if !busy && !(in_sess.is_some() && self.p.has("drop_table_inside_session")) && !(being_dropped && self.p.has("drop_of_table_with_pending_drop")) {
                        match in_sess {
                            Some(k) => self.emit(Event::Exec(k, Stmt::DropTable { name, cascade: false })),
                            None => {
                                if self.sess.is_empty() {
                                    // every other autocommit drop is a DROP TABLE ... CASCADE (decided without a PRNG draw)
                                    let cascade = self.events.len() % 2 == 0;
                                    self.emit(Event::Auto(Stmt::DropTable { name, cascade }))
                                }
                            }
                        }
                    }
                }
            } else if take!(self.p.w_chaos) {
                // hostile text at any point of any session, or autocommit, followed by a state check
                let probe = self.model.begin();
                let world = crate::chaos::World {
                    tables: self
                        .visible_tables(probe)
                        .iter()
                        .map(|ti| {
                            let t = &self.model.tables[*ti];
                            (t.name.clone(), t.cols.iter().map(|c| (c.name.clone(), c.ty == Ty::Text)).collect())
                        })
                        .collect(),
                };
                self.model.abort(probe);
                let sql = crate::chaos::chaos_sql(&mut self.rng, &world, &self.p.guards);
                let open: Vec<u32> = self.sess.keys().copied().collect();
                if !open.is_empty() && self.rng.chance(60) {
                    let k = *self.rng.pick(&open);
                    self.emit(Event::Exec(k, Stmt::Raw(sql)));
                    if self.rng.chance(50) {
                        let tx = self.sess[&k];
                        if let Some(r) = self.gen_read(tx) {
                            self.emit(Event::Exec(k, r));
                        }
                    }
                } else {
                    self.emit(Event::Auto(Stmt::Raw(sql)));
                    if self.rng.chance(30) {
                        self.emit(Event::Check);
                    }
                }
            } else if take!(self.p.w_failing) {
                let open: Vec<u32> = self.sess.keys().copied().collect();
                if !open.is_empty() && self.rng.chance(60) {
                    let k = *self.rng.pick(&open);
                    let tx = self.sess[&k];
                    if let Some(s) = self.gen_failing(tx, true) {
                        self.emit(Event::Exec(k, s));
                    }
                } else {
                    let tx = self.model.begin();
                    let s = self.gen_failing(tx, false);
                    self.model.abort(tx);
                    if let Some(s) = s {
                        self.emit(Event::Auto(s));
                    }
                }
            }
        }
        // wind down
        let open: Vec<u32> = self.sess.keys().copied().collect();
        for k in open {
            self.end_session(k);
        }
        // crash profiles, every other history (decided without a PRNG draw): a table with a named unique index is
        // created, filled and dropped with CASCADE, all committed, so that some crash points replay the drop from the
        // log; crashsim then probes that the index name is free again on the recovered database
        if matches!(self.p.name.as_str(), "C01" | "C02" | "C08")
            && self.events.len() % 2 == 0
            && self.relations_made < 2
            && self.model.tables.iter().all(|t| t.name != "zc")
        {
            let col = |n: &str, ty: Ty| ColDef { name: n.into(), ty, not_null: false, default: None };
            self.relations_made += 2;
            self.emit(Event::Auto(Stmt::CreateTable { name: "zc".into(), cols: vec![col("id", Ty::BigInt), col("v", Ty::Int)], pk: None, uniques: vec![] }));
            self.emit(Event::Auto(Stmt::CreateIndex { name: "zc_ix".into(), table: "zc".into(), cols: vec!["id".into()] }));
            self.emit(Event::Auto(Stmt::Insert { table: "zc".into(), rows: vec![vec![Val::I(1), Val::I(1)]] }));
            self.emit(Event::Auto(Stmt::DropTable { name: "zc".into(), cascade: true }));
        }
        self.emit(Event::Check);
        if self.p.txn_burst > 0 {
            self.emit(Event::TxnBurst(self.p.txn_burst));
            let c = cfg_for_reopen(&mut self.rng);
            self.emit(Event::Reopen(c));
            self.emit(Event::Check);
        }
        self.events
    }
}
