mod btsim;
mod chaos;
mod crashsim;
mod eng;
mod guards;
mod hgen;
mod model;
mod props;
mod run;
mod served;
mod sqlsim;
mod stmt;
mod sup;
mod threadsim;
mod triggers;
mod util;
mod walsim;
mod wiresim;
mod worker;

use std::io::{BufRead, Write};

fn repl(args: &[String]) {
    let dir = std::path::PathBuf::from(&args[0]);
    let cache: usize = args.get(1).map(|s| s.parse().unwrap()).unwrap_or(256);
    let page: usize = args.get(2).map(|s| s.parse().unwrap()).unwrap_or(4096);
    let _ = std::fs::remove_dir_all(&dir);
    std::fs::create_dir_all(&dir).unwrap();
    let cfg = eng::Cfg { page, cache, pool: 1, min_keys: 3, siblings: 2 };
    let mut e = eng::Eng::create(&dir, cfg).unwrap();
    let out = std::io::stdout();
    for line in std::io::stdin().lock().lines() {
        let line = line.unwrap();
        let line = line.trim();
        if line.is_empty() || line.starts_with('#') {
            continue;
        }
        // (the engine prints to stdout itself in a few places: the lock must not be held across a call)
        writeln!(out.lock(), "> {line}").unwrap();
        let res = if let Some(rest) = line.strip_prefix('!') {
            let p: Vec<&str> = rest.splitn(3, ' ').collect();
            match p[0] {
                "begin" => e.begin(p[1].parse().unwrap()),
                "s" => e.sexec(p[1].parse().unwrap(), p[2]),
                "commit" => e.commit(p[1].parse().unwrap()),
                "abort" => e.abort(p[1].parse().unwrap()),
                "dropsess" => {
                    e.drop_session(p[1].parse().unwrap());
                    eng::Out::Ok
                }
                "vacuum" => e.vacuum(),
                "analyze" => e.analyze(),
                "flush" => e.flush(),
                "reopen" => e.reopen(cfg),
                "explain" => match e.explain(&rest[8..]) {
                    Ok(s) => {
                        writeln!(out.lock(), "{s}").unwrap();
                        eng::Out::Ok
                    }
                    Err(m) => eng::Out::Err(eng::classify(&m), m),
                },
                _ => eng::Out::Err(eng::ErrClass::Other, "?".into()),
            }
        } else {
            e.exec(line)
        };
        let mut o = out.lock();
        writeln!(o, "  {}", res.short()).unwrap();
        for x in util::take_panics() {
            writeln!(o, "  PANIC {x}").unwrap();
        }
    }
    e.close();
}

fn verif_seed() -> u64 {
    std::env::var("VERIF_SEED").ok().and_then(|s| s.parse::<u64>().ok()).unwrap_or(20260925)
}

fn main() {
    let args: Vec<String> = std::env::args().collect();
    util::install_panic_hook();
    let code = match args.get(1).map(|s| s.as_str()) {
        Some("repl") => {
            repl(&args[2..]);
            0
        }
        Some("worker") => {
            let out = util::steal_stdout();
            worker::worker_main(&args[2..], out)
        }
        Some("replay-raw") => {
            let out = util::steal_stdout();
            worker::replay_raw(&args[2], out)
        }
        Some("gen") => {
            // print the generated case for (property, index)
            let idx: u64 = args[3].parse().unwrap();
            println!("{}", serde_json::to_string_pretty(&worker::case_json(&args[2], verif_seed(), idx)).unwrap());
            0
        }
        Some("reach") => {
            // reach PROP GUARD LO HI: with GUARD lifted (AXSIM_NOGUARD must name it), how many generated
            // histories enter its region (trip its predicate)?
            let (lo, hi): (u64, u64) = (args[4].parse().unwrap(), args[5].parse().unwrap());
            let mut n = 0;
            for i in lo..hi {
                let v = worker::case_json(&args[2], verif_seed(), i);
                if let Ok(c) = serde_json::from_value::<run::SqlReplay>(v) {
                    if guards::first_violation(&c.events, &[args[3].clone()]).is_some() {
                        n += 1;
                    }
                }
            }
            println!("{} of {} histories of {} enter the region of {}", n, hi - lo, args[2], args[3]);
            0
        }
        Some("audit") => {
            // audit PROP LO HI: generated cases that trip their own guards
            let (lo, hi): (u64, u64) = (args[3].parse().unwrap(), args[4].parse().unwrap());
            for i in lo..hi {
                let v = worker::case_json(&args[2], verif_seed(), i);
                if let Ok(c) = serde_json::from_value::<run::SqlReplay>(v) {
                    if let Some((e, g)) = run::audit_generated(&c) {
                        println!("idx {i}: event {e} trips {g}: {}", c.events[e].short());
                    }
                }
            }
            0
        }
        Some("show") => {
            let v: serde_json::Value = serde_json::from_str(&std::fs::read_to_string(&args[2]).unwrap()).unwrap();
            if let Ok(c) = serde_json::from_value::<run::SqlReplay>(v.clone()) {
                println!("cfg {:?}", c.cfg);
                for (i, e) in c.events.iter().enumerate() {
                    println!("{i:3} {}", e.short());
                }
            }
            println!("class: {}  detail: {}", v["violation_class"], v["violation_detail"]);
            0
        }
        Some("replay") => {
            // user-facing replay: exit 1 + VIOLATION line if the file still fails
            let p = std::path::Path::new(&args[2]);
            let out = sup::run_replay_file(p, std::time::Duration::from_secs(60));
            let v: serde_json::Value = serde_json::from_str(&std::fs::read_to_string(p).unwrap()).unwrap();
            let prop = v["property"].as_str().unwrap_or("?");
            match out {
                sup::ReplayOutcome::Clean => {
                    println!("replay of {} is clean", p.display());
                    0
                }
                o => {
                    println!("VIOLATION property={} replay={}", prop, p.display());
                    match &o {
                        sup::ReplayOutcome::Violation(v) => println!("  {}: event {}: {}", v.oracle, v.event, v.detail),
                        x => println!("  {}", x.class()),
                    }
                    1
                }
            }
        }
        Some("check") => {
            let prop = args.get(2).cloned().unwrap_or_default();
            let mut tier = std::env::var("VERIF_TIER").unwrap_or_else(|_| "quick".into());
            let mut i = 3;
            while i < args.len() {
                if args[i] == "--tier" && i + 1 < args.len() {
                    tier = args[i + 1].clone();
                    i += 1;
                }
                i += 1;
            }
            // a panic of the harness itself is a harness error (exit 2), never a verdict
            let c = match std::panic::catch_unwind(|| sup::check(&prop, &tier, verif_seed())) {
                Ok(c) => c,
                Err(_) => {
                    println!("HARNESS-ERROR the supervisor panicked: {}", util::take_panics().join(" | "));
                    2
                }
            };
            util::cleanup_scratch();
            c
        }
        _ => {
            eprintln!("usage: axsim check <ID> [--tier quick|thorough] | replay FILE | repl DIR | gen ID IDX | show FILE");
            2
        }
    };
    std::process::exit(code);
}
