//! Reference model: a multi-version store with textbook snapshot isolation.
//! Shares no code with the engine. Every transaction sees exactly what had
//! committed when it began, plus its own writes.
use crate::eng::{ErrClass, Out};
use crate::stmt::*;
use std::collections::BTreeMap;

pub type Tx = usize;

#[derive(Clone, Copy, Debug, PartialEq, Eq)]
pub enum TxStatus {
    Active,
    Committed,
    Aborted,
}

#[derive(Clone, Debug)]
pub struct TxM {
    pub status: TxStatus,
    pub begin_seq: u64,
    pub commit_seq: Option<u64>,
    /// transactions this one has a write-write conflict with
    pub conflicts: Vec<Tx>,
    /// number of statements that changed something
    pub writes: usize,
}

#[derive(Clone, Debug)]
pub struct Version {
    pub writer: Tx,
    pub vals: Vec<Val>,
}

#[derive(Clone, Debug)]
pub struct RowM {
    pub creator: Tx,
    pub deleters: Vec<Tx>,
    pub versions: Vec<Version>,
}

#[derive(Clone, Debug)]
pub struct UniqueM {
    pub cols: Vec<usize>,
    pub creator: Tx,
    pub name: String,
}

#[derive(Clone, Debug)]
pub struct TableM {
    pub name: String,
    pub cols: Vec<ColDef>,
    pub uniques: Vec<UniqueM>,
    pub creator: Tx,
    pub droppers: Vec<Tx>,
    pub rows: Vec<RowM>,
}

/// What the model expects from the engine for one statement.
#[derive(Clone, Debug, PartialEq)]
pub enum Expect {
    Rows(Vec<Vec<String>>),
    Count(u64),
    Ddl,
    /// must be rejected (any error class that is not an internal failure)
    Fail(&'static str),
    /// the model makes no prediction (free text)
    Any,
}

#[derive(Clone, Debug, Default)]
pub struct Model {
    pub txs: Vec<TxM>,
    pub tables: Vec<TableM>,
    pub seq: u64,
    /// notes about situations where the expectation is deliberately loose
    pub hazards: Vec<String>,
}

fn cmp3(a: &Val, op: Op, b: &Val) -> Option<bool> {
    use std::cmp::Ordering::*;
    let ord = match (a, b) {
        (Val::Null, _) | (_, Val::Null) => return None,
        (Val::I(x), Val::I(y)) => x.cmp(y),
        (Val::T(x), Val::T(y)) => x.as_bytes().cmp(y.as_bytes()),
        _ => return None,
    };
    Some(match op {
        Op::Eq => ord == Equal,
        Op::Ne => ord != Equal,
        Op::Lt => ord == Less,
        Op::Le => ord != Greater,
        Op::Gt => ord == Greater,
        Op::Ge => ord != Less,
    })
}

impl TableM {
    pub fn col(&self, name: &str) -> Option<usize> {
        self.cols.iter().position(|c| c.name == name)
    }
    fn eval(&self, p: &Pred, vals: &[Val]) -> Result<Option<bool>, ()> {
        Ok(match p {
            Pred::Cmp(c, op, v) => cmp3(&vals[self.col(c).ok_or(())?], *op, v),
            Pred::IsNull(c) => Some(vals[self.col(c).ok_or(())?].is_null()),
            Pred::NotNull(c) => Some(!vals[self.col(c).ok_or(())?].is_null()),
            Pred::And(a, b) => match (self.eval(a, vals)?, self.eval(b, vals)?) {
                (Some(false), _) | (_, Some(false)) => Some(false),
                (Some(true), Some(true)) => Some(true),
                _ => None,
            },
            Pred::Or(a, b) => match (self.eval(a, vals)?, self.eval(b, vals)?) {
                (Some(true), _) | (_, Some(true)) => Some(true),
                (Some(false), Some(false)) => Some(false),
                _ => None,
            },
        })
    }
    pub fn matches_pub(&self, p: &Option<Pred>, vals: &[Val]) -> bool {
        self.matches(p, vals).unwrap_or(false)
    }
    fn matches(&self, p: &Option<Pred>, vals: &[Val]) -> Result<bool, ()> {
        match p {
            None => Ok(true),
            Some(p) => Ok(self.eval(p, vals)? == Some(true)),
        }
    }
}

fn type_ok(ty: Ty, v: &Val) -> bool {
    matches!((ty, v), (_, Val::Null) | (Ty::Int, Val::I(_)) | (Ty::BigInt, Val::I(_)) | (Ty::Text, Val::T(_)))
}

impl Model {
    pub fn new() -> Self {
        Model::default()
    }

    pub fn begin(&mut self) -> Tx {
        self.seq += 1;
        self.txs.push(TxM { status: TxStatus::Active, begin_seq: self.seq, commit_seq: None, conflicts: vec![], writes: 0 });
        self.txs.len() - 1
    }

    /// Would a commit of `tx` have to be refused (first committer wins)?
    pub fn commit_must_fail(&self, tx: Tx) -> bool {
        self.txs[tx].conflicts.iter().any(|u| self.txs[*u].status == TxStatus::Committed)
    }

    pub fn commit(&mut self, tx: Tx) {
        self.seq += 1;
        self.txs[tx].status = TxStatus::Committed;
        self.txs[tx].commit_seq = Some(self.seq);
    }

    pub fn abort(&mut self, tx: Tx) {
        self.txs[tx].status = TxStatus::Aborted;
    }

    pub fn active(&self) -> Vec<Tx> {
        (0..self.txs.len()).filter(|t| self.txs[*t].status == TxStatus::Active).collect()
    }

    pub fn sees(&self, reader: Tx, writer: Tx) -> bool {
        writer == reader
            || (self.txs[writer].status == TxStatus::Committed
                && self.txs[writer].commit_seq.unwrap() < self.txs[reader].begin_seq)
    }

    /// `writer` wrote concurrently with `tx`: still active, or committed after `tx` began.
    fn concurrent(&self, tx: Tx, writer: Tx) -> bool {
        writer != tx
            && match self.txs[writer].status {
                TxStatus::Active => true,
                TxStatus::Committed => !self.sees(tx, writer),
                TxStatus::Aborted => false,
            }
    }

    fn table_visible(&self, tx: Tx, t: &TableM) -> bool {
        self.sees(tx, t.creator) && !t.droppers.iter().any(|d| self.sees(tx, *d))
    }

    pub fn find_table(&self, tx: Tx, name: &str) -> Option<usize> {
        (0..self.tables.len()).rev().find(|i| self.tables[*i].name == name && self.table_visible(tx, &self.tables[*i]))
    }

    /// A table of that name exists for someone (created by an active or committed transaction, not dropped for good).
    pub fn name_in_use_by_other(&self, tx: Tx, name: &str) -> bool {
        self.tables.iter().any(|t| {
            t.name == name
                && self.txs[t.creator].status != TxStatus::Aborted
                && !t.droppers.iter().any(|d| self.txs[*d].status == TxStatus::Committed)
                && !self.table_visible(tx, t)
        })
    }

    fn row_visible(&self, tx: Tx, r: &RowM) -> bool {
        self.sees(tx, r.creator) && !r.deleters.iter().any(|d| self.sees(tx, *d))
    }

    fn row_vals<'a>(&self, tx: Tx, r: &'a RowM) -> Option<&'a Vec<Val>> {
        r.versions.iter().rev().find(|v| self.sees(tx, v.writer)).map(|v| &v.vals)
    }

    /// Rows of table `ti` as `tx` sees them: (row index, values).
    pub fn visible_rows(&self, tx: Tx, ti: usize) -> Vec<(usize, Vec<Val>)> {
        let t = &self.tables[ti];
        let mut out = vec![];
        for (i, r) in t.rows.iter().enumerate() {
            if self.row_visible(tx, r) {
                if let Some(v) = self.row_vals(tx, r) {
                    out.push((i, v.clone()));
                }
            }
        }
        out
    }

    fn unique_violation(&self, tx: Tx, ti: usize, candidate: &[Val], skip_row: Option<usize>, extra: &[Vec<Val>]) -> bool {
        let t = &self.tables[ti];
        let rows = self.visible_rows(tx, ti);
        for u in &t.uniques {
            if !self.sees(tx, u.creator) {
                continue;
            }
            let key: Vec<&Val> = u.cols.iter().map(|c| &candidate[*c]).collect();
            if key.iter().any(|v| v.is_null()) {
                continue;
            }
            for (ri, vals) in &rows {
                if Some(*ri) == skip_row {
                    continue;
                }
                if u.cols.iter().map(|c| &vals[*c]).collect::<Vec<_>>() == key {
                    return true;
                }
            }
            for vals in extra {
                if u.cols.iter().map(|c| &vals[*c]).collect::<Vec<_>>() == key {
                    return true;
                }
            }
        }
        false
    }

    /// Does a key of `candidate` collide with a row that `tx` cannot see but that is not dead
    /// (inserted by a concurrent transaction)? The model leaves the outcome open then.
    fn unique_hazard(&self, tx: Tx, ti: usize, candidate: &[Val]) -> bool {
        let t = &self.tables[ti];
        for u in &t.uniques {
            let key: Vec<&Val> = u.cols.iter().map(|c| &candidate[*c]).collect();
            if key.iter().any(|v| v.is_null()) {
                continue;
            }
            for r in &t.rows {
                if self.row_visible(tx, r) {
                    continue;
                }
                // a row that carries a delete mark of anybody who has not aborted does not hold its key
                if r.deleters.iter().any(|d| self.txs[*d].status != TxStatus::Aborted) {
                    continue;
                }
                for v in &r.versions {
                    if self.concurrent(tx, v.writer) && u.cols.iter().map(|c| &v.vals[*c]).collect::<Vec<_>>() == key {
                        return true;
                    }
                }
            }
        }
        false
    }

    /// Predict the outcome of `stmt` in `tx`; with `apply` also perform its effects
    /// (only call with `apply` when the engine reported success).
    pub fn run(&mut self, tx: Tx, stmt: &Stmt, apply: bool) -> Expect {
        match stmt {
            Stmt::Raw(_) => Expect::Any,
            Stmt::CreateTable { name, cols, pk, uniques } => {
                if self.find_table(tx, name).is_some() {
                    return Expect::Fail("table exists");
                }
                if self.name_in_use_by_other(tx, name) {
                    self.hazards.push(format!("create of {name} races with another transaction"));
                    return Expect::Any;
                }
                let mut names: Vec<&String> = cols.iter().map(|c| &c.name).collect();
                names.sort();
                names.dedup();
                if names.len() != cols.len() {
                    return Expect::Fail("duplicate column");
                }
                let mut us = vec![];
                let mut all: Vec<(String, &Vec<String>)> = vec![];
                if let Some(pk) = pk {
                    all.push(("pk".into(), pk));
                }
                for (i, u) in uniques.iter().enumerate() {
                    all.push((format!("u{i}"), u));
                }
                for (n, u) in all {
                    let mut idx = vec![];
                    for c in u {
                        match cols.iter().position(|x| &x.name == c) {
                            Some(i) => idx.push(i),
                            None => return Expect::Fail("unknown column in constraint"),
                        }
                    }
                    us.push(UniqueM { cols: idx, creator: tx, name: n });
                }
                if apply {
                    let mut cols = cols.clone();
                    if let Some(pk) = pk {
                        for c in cols.iter_mut() {
                            if pk.contains(&c.name) {
                                c.not_null = true;
                            }
                        }
                    }
                    self.tables.push(TableM { name: name.clone(), cols, uniques: us, creator: tx, droppers: vec![], rows: vec![] });
                    self.txs[tx].writes += 1;
                }
                Expect::Ddl
            }
            Stmt::CreateIndex { name, table, cols } => {
                let Some(ti) = self.find_table(tx, table) else { return Expect::Fail("unknown table") };
                let mut idx = vec![];
                for c in cols {
                    match self.tables[ti].col(c) {
                        Some(i) => idx.push(i),
                        None => return Expect::Fail("unknown column"),
                    }
                }
                if self.tables[ti].uniques.iter().any(|u| &u.name == name && self.sees(tx, u.creator)) {
                    return Expect::Fail("index exists");
                }
                // existing duplicates make the creation fail
                let rows = self.visible_rows(tx, ti);
                // and so does a NULL in an indexed column (index keys cannot be NULL in this engine)
                if rows.iter().any(|(_, v)| idx.iter().any(|c| v[*c].is_null())) {
                    return Expect::Fail("null key");
                }
                let mut keys: Vec<Vec<&Val>> = rows
                    .iter()
                    .map(|(_, v)| idx.iter().map(|c| &v[*c]).collect::<Vec<_>>())
                    .filter(|k| !k.iter().any(|v| v.is_null()))
                    .collect();
                let n = keys.len();
                keys.sort();
                keys.dedup();
                if keys.len() != n {
                    return Expect::Fail("duplicates present");
                }
                if apply {
                    self.tables[ti].uniques.push(UniqueM { cols: idx, creator: tx, name: name.clone() });
                    self.txs[tx].writes += 1;
                }
                Expect::Ddl
            }
            Stmt::DropTable { name, .. } => {
                let Some(ti) = self.find_table(tx, name) else { return Expect::Fail("unknown table") };
                // somebody else is dropping the table (or dropped it after we began): write-write conflict
                if self.tables[ti].droppers.iter().any(|d| *d != tx && self.concurrent(tx, *d)) {
                    return Expect::Fail("write conflict");
                }
                if apply {
                    self.tables[ti].droppers.push(tx);
                    self.txs[tx].writes += 1;
                }
                Expect::Ddl
            }
            Stmt::Alter { table, action } => {
                let Some(ti) = self.find_table(tx, table) else { return Expect::Fail("unknown table") };
                match action {
                    AlterAction::AddColumn(c) => {
                        if self.tables[ti].col(&c.name).is_some() {
                            return Expect::Fail("column exists");
                        }
                        if apply {
                            let fill = c.default.clone().unwrap_or(Val::Null);
                            self.tables[ti].cols.push(c.clone());
                            for r in self.tables[ti].rows.iter_mut() {
                                for v in r.versions.iter_mut() {
                                    v.vals.push(fill.clone());
                                }
                            }
                            self.txs[tx].writes += 1;
                        }
                        Expect::Ddl
                    }
                    AlterAction::DropColumn(c) => {
                        let Some(ci) = self.tables[ti].col(c) else { return Expect::Fail("unknown column") };
                        if self.tables[ti].uniques.iter().any(|u| u.cols.contains(&ci)) {
                            return Expect::Any;
                        }
                        if apply {
                            self.tables[ti].cols.remove(ci);
                            for u in self.tables[ti].uniques.iter_mut() {
                                for x in u.cols.iter_mut() {
                                    if *x > ci {
                                        *x -= 1;
                                    }
                                }
                            }
                            for r in self.tables[ti].rows.iter_mut() {
                                for v in r.versions.iter_mut() {
                                    v.vals.remove(ci);
                                }
                            }
                            self.txs[tx].writes += 1;
                        }
                        Expect::Ddl
                    }
                    AlterAction::SetNotNull(c) | AlterAction::DropNotNull(c) => {
                        let Some(ci) = self.tables[ti].col(c) else { return Expect::Fail("unknown column") };
                        let set = matches!(action, AlterAction::SetNotNull(_));
                        if set && self.tables[ti].rows.iter().any(|r| r.versions.iter().any(|v| v.vals[ci].is_null())) {
                            // NULLs already stored: the model leaves the outcome open
                            return Expect::Any;
                        }
                        if !set && self.tables[ti].uniques.iter().any(|u| u.cols.contains(&ci)) {
                            return Expect::Any;
                        }
                        if apply {
                            self.tables[ti].cols[ci].not_null = set;
                            self.txs[tx].writes += 1;
                        }
                        Expect::Ddl
                    }
                    _ => Expect::Any,
                }
            }
            Stmt::Insert { table, rows } => {
                let Some(ti) = self.find_table(tx, table) else { return Expect::Fail("unknown table") };
                let ncols = self.tables[ti].cols.len();
                let mut accepted: Vec<Vec<Val>> = vec![];
                for r in rows {
                    if r.len() != ncols {
                        return Expect::Fail("column count");
                    }
                    for (c, v) in self.tables[ti].cols.iter().zip(r.iter()) {
                        if !type_ok(c.ty, v) {
                            return Expect::Fail("type");
                        }
                        if c.not_null && v.is_null() {
                            return Expect::Fail("not null");
                        }
                    }
                    // index keys cannot be NULL in this engine: a row with a NULL in a PRIMARY KEY / UNIQUE
                    // column is refused (since fix for F1: before anything is stored)
                    if self.tables[ti].uniques.iter().any(|u| self.sees(tx, u.creator) && u.cols.iter().any(|c| r[*c].is_null())) {
                        return Expect::Fail("not null");
                    }
                    if self.unique_violation(tx, ti, r, None, &accepted) {
                        return Expect::Fail("unique");
                    }
                    if self.unique_hazard(tx, ti, r) {
                        // the key is held by a transaction that is still open or committed after we began:
                        // the engine refuses the row with a write-write conflict (no wait)
                        return Expect::Fail("write conflict");
                    }
                    accepted.push(r.clone());
                }
                if apply {
                    for r in accepted {
                        self.tables[ti].rows.push(RowM { creator: tx, deleters: vec![], versions: vec![Version { writer: tx, vals: r }] });
                    }
                    self.txs[tx].writes += 1;
                }
                Expect::Count(rows.len() as u64)
            }
            Stmt::Update { table, set, pred } => {
                let Some(ti) = self.find_table(tx, table) else { return Expect::Fail("unknown table") };
                let t = &self.tables[ti];
                let mut cols_ok = vec![];
                if let Some(p) = pred {
                    p.columns(&mut cols_ok);
                }
                for (c, e) in set {
                    cols_ok.push(c.clone());
                    if let Expr::ColPlus(c2, _) = e {
                        cols_ok.push(c2.clone());
                    }
                }
                if cols_ok.iter().any(|c| t.col(c).is_none()) {
                    return Expect::Fail("unknown column");
                }
                let rows = self.visible_rows(tx, ti);
                let mut changes: Vec<(usize, Vec<Val>)> = vec![];
                for (ri, vals) in &rows {
                    if !t.matches(pred, vals).unwrap() {
                        continue;
                    }
                    let mut nv = vals.clone();
                    for (c, e) in set {
                        let ci = t.col(c).unwrap();
                        let v = match e {
                            Expr::Lit(v) => v.clone(),
                            Expr::ColPlus(c2, k) => match &vals[t.col(c2).unwrap()] {
                                Val::I(x) => Val::I(x + k),
                                Val::Null => Val::Null,
                                Val::T(_) => return Expect::Fail("type"),
                            },
                        };
                        if !type_ok(t.cols[ci].ty, &v) {
                            return Expect::Fail("type");
                        }
                        if t.cols[ci].not_null && v.is_null() {
                            return Expect::Fail("not null");
                        }
                        nv[ci] = v;
                    }
                    changes.push((*ri, nv));
                }
                // uniqueness is judged on the final state of the statement
                for (k, (ri, nv)) in changes.iter().enumerate() {
                    let others: Vec<Vec<Val>> = changes.iter().enumerate().filter(|(j, _)| *j != k).map(|(_, c)| c.1.clone()).collect();
                    let unchanged: Vec<usize> = changes.iter().map(|c| c.0).collect();
                    // compare against rows not being changed, and against the other new images
                    let t = &self.tables[ti];
                    for u in &t.uniques {
                        if !self.sees(tx, u.creator) {
                            continue;
                        }
                        let key: Vec<&Val> = u.cols.iter().map(|c| &nv[*c]).collect();
                        if key.iter().any(|v| v.is_null()) {
                            continue;
                        }
                        for (rj, vals) in &rows {
                            if rj == ri || unchanged.contains(rj) {
                                continue;
                            }
                            if u.cols.iter().map(|c| &vals[*c]).collect::<Vec<_>>() == key {
                                return Expect::Fail("unique");
                            }
                        }
                        for o in &others {
                            if u.cols.iter().map(|c| &o[*c]).collect::<Vec<_>>() == key {
                                return Expect::Fail("unique");
                            }
                        }
                    }
                }
                let n = changes.len() as u64;
                let mut conflicts = vec![];
                for (ri, _) in &changes {
                    let r = &self.tables[ti].rows[*ri];
                    for w in r.versions.iter().map(|v| v.writer).chain(r.deleters.iter().copied()) {
                        if self.concurrent(tx, w) {
                            conflicts.push(w);
                        }
                    }
                }
                if apply {
                    for (ri, nv) in changes {
                        self.tables[ti].rows[ri].versions.push(Version { writer: tx, vals: nv });
                    }
                    for w in conflicts {
                        if !self.txs[tx].conflicts.contains(&w) {
                            self.txs[tx].conflicts.push(w);
                            self.txs[w].conflicts.push(tx);
                        }
                    }
                    if n > 0 {
                        self.txs[tx].writes += 1;
                    }
                } else if !conflicts.is_empty() {
                    self.hazards.push(format!("update of {table} touches a row written by a concurrent transaction"));
                }
                Expect::Count(n)
            }
            Stmt::Delete { table, pred } => {
                let Some(ti) = self.find_table(tx, table) else { return Expect::Fail("unknown table") };
                let t = &self.tables[ti];
                let mut cols_ok = vec![];
                if let Some(p) = pred {
                    p.columns(&mut cols_ok);
                }
                if cols_ok.iter().any(|c| t.col(c).is_none()) {
                    return Expect::Fail("unknown column");
                }
                let rows = self.visible_rows(tx, ti);
                let hit: Vec<usize> = rows.iter().filter(|(_, v)| t.matches(pred, v).unwrap()).map(|(i, _)| *i).collect();
                let mut conflicts = vec![];
                for ri in &hit {
                    let r = &self.tables[ti].rows[*ri];
                    for w in r.versions.iter().map(|v| v.writer).chain(r.deleters.iter().copied()) {
                        if self.concurrent(tx, w) {
                            conflicts.push(w);
                        }
                    }
                }
                let n = hit.len() as u64;
                if !conflicts.is_empty() {
                    // a row that a concurrent transaction (still open, or committed after we began) is
                    // deleting as well: the engine refuses the statement with a write-write conflict
                    // (no-wait, first deleter wins); the transaction that was refused has to roll back
                    return Expect::Fail("write conflict");
                }
                if apply {
                    for ri in hit {
                        self.tables[ti].rows[ri].deleters.push(tx);
                    }
                    if n > 0 {
                        self.txs[tx].writes += 1;
                    }
                }
                Expect::Count(n)
            }
            Stmt::Select { table, cols, pred } => {
                let Some(ti) = self.find_table(tx, table) else { return Expect::Fail("unknown table") };
                let t = &self.tables[ti];
                let mut refd = cols.clone();
                if let Some(p) = pred {
                    p.columns(&mut refd);
                }
                if refd.iter().any(|c| t.col(c).is_none()) {
                    return Expect::Fail("unknown column");
                }
                let idx: Vec<usize> = if cols.is_empty() { (0..t.cols.len()).collect() } else { cols.iter().map(|c| t.col(c).unwrap()).collect() };
                let mut out: Vec<Vec<String>> = self
                    .visible_rows(tx, ti)
                    .into_iter()
                    .filter(|(_, v)| t.matches(pred, v).unwrap())
                    .map(|(_, v)| idx.iter().map(|i| v[*i].render()).collect())
                    .collect();
                out.sort();
                Expect::Rows(out)
            }
            Stmt::Count { table, pred } => {
                let Some(ti) = self.find_table(tx, table) else { return Expect::Fail("unknown table") };
                let t = &self.tables[ti];
                let mut refd = vec![];
                if let Some(p) = pred {
                    p.columns(&mut refd);
                }
                if refd.iter().any(|c| t.col(c).is_none()) {
                    return Expect::Fail("unknown column");
                }
                let n = self.visible_rows(tx, ti).into_iter().filter(|(_, v)| t.matches(pred, v).unwrap()).count();
                Expect::Rows(vec![vec![n.to_string()]])
            }
        }
    }

    /// Committed state as a fresh transaction would read it: table name -> sorted rendered rows.
    pub fn committed_state(&mut self) -> BTreeMap<String, Vec<Vec<String>>> {
        let tx = self.begin();
        let mut out = BTreeMap::new();
        for ti in 0..self.tables.len() {
            if self.table_visible(tx, &self.tables[ti]) {
                let mut rows: Vec<Vec<String>> = self.visible_rows(tx, ti).into_iter().map(|(_, v)| v.iter().map(|x| x.render()).collect()).collect();
                rows.sort();
                out.insert(self.tables[ti].name.clone(), rows);
            }
        }
        self.abort(tx);
        out
    }

    pub fn digest(&mut self) -> u64 {
        let st = self.committed_state();
        let mut h = 0xcbf29ce484222325u64;
        for (k, v) in st {
            crate::util::fnv(&mut h, k.as_bytes());
            for r in v {
                for c in r {
                    crate::util::fnv(&mut h, c.as_bytes());
                    crate::util::fnv(&mut h, b"|");
                }
                crate::util::fnv(&mut h, b";");
            }
        }
        h
    }
}

/// Compare an engine result with the model's expectation.
pub fn agrees(exp: &Expect, out: &Out) -> Result<(), String> {
    match (exp, out) {
        (Expect::Any, Out::Err(ErrClass::Internal, m)) => Err(format!("internal failure: {m}")),
        (Expect::Any, _) => Ok(()),
        (Expect::Rows(a), Out::Rows(b)) if a == b => Ok(()),
        (Expect::Count(a), Out::Count(b)) if a == b => Ok(()),
        (Expect::Ddl, Out::Ddl) => Ok(()),
        (Expect::Fail(_), Out::Err(c, m)) => {
            if matches!(c, ErrClass::Internal | ErrClass::Oom) {
                Err(format!("expected a clean rejection, got an internal failure: {m}"))
            } else {
                Ok(())
            }
        }
        (e, o) => Err(format!("model expects {}, engine returned {}", show_expect(e), o.short())),
    }
}

pub fn show_expect(e: &Expect) -> String {
    match e {
        Expect::Rows(r) => Out::Rows(r.clone()).short(),
        Expect::Count(n) => format!("COUNT {n}"),
        Expect::Ddl => "DDL".into(),
        Expect::Fail(w) => format!("REJECT({w})"),
        Expect::Any => "ANY".into(),
    }
}
