//! Property registry: which engine decides each property, how runs are generated,
//! what makes a run non-trivial, and the tier budgets.
use crate::hgen::Profile;
use crate::util::Rng;

#[derive(Clone, Copy, Debug, PartialEq, Eq)]
pub enum Engine {
    Sql,
    Crash,
    Wal,
    Btree,
    Thread,
    Wire,
}

pub struct PropInfo {
    pub id: &'static str,
    pub engine: Engine,
    pub level: &'static str,
    pub quick_runs: u64,
    pub thorough_runs: u64,
    /// seconds without progress before a worker is declared hung
    pub watchdog_s: u64,
    pub rule: &'static str,
}

pub const PROPS: &[PropInfo] = &[
    PropInfo { id: "C03", engine: Engine::Sql, level: "exploration", quick_runs: 6000, thorough_runs: 400000, watchdog_s: 20,
        rule: "one case = one generated history (sessions, autocommit statements, batches, rollbacks, session drops, failing statements) run against the real engine and the reference model; non-trivial = at least one ROLLBACK / session drop / failed statement or batch happened and a later read or state check compared against the model; distinct = distinct fingerprints of the logical event log" },
    PropInfo { id: "C04", engine: Engine::Sql, level: "exploration", quick_runs: 6000, thorough_runs: 400000, watchdog_s: 20,
        rule: "one case = one generated interleaving of 2-4 sessions' statements; non-trivial = two transactions overlapped and a session read after another transaction committed since it began; distinct = distinct fingerprints of the logical event log" },
    PropInfo { id: "C07", engine: Engine::Sql, level: "exploration", quick_runs: 6000, thorough_runs: 400000, watchdog_s: 20,
        rule: "one case = one history on tables with PRIMARY KEY / UNIQUE / NOT NULL and a key domain of five values; non-trivial = at least one statement was rejected for a constraint and at least one key was re-inserted after delete or rollback; distinct = distinct fingerprints" },
    PropInfo { id: "C09", engine: Engine::Sql, level: "exploration", quick_runs: 1500, thorough_runs: 30000, watchdog_s: 30,
        rule: "one case = one history split by 1-6 clean close/reopen cycles with different open() configurations; non-trivial = at least one reopen with committed data and a state check after it; distinct = distinct fingerprints" },
    PropInfo { id: "C12", engine: Engine::Sql, level: "exploration", quick_runs: 300, thorough_runs: 10000, watchdog_s: 40,
        rule: "one case = one history executed against k databases with different configurations (page size, cache, pool, min keys, siblings); non-trivial = the configurations differ and at least one of them evicted pages; distinct = distinct (history fingerprint, configuration set)" },
    PropInfo { id: "C13", engine: Engine::Sql, level: "exploration", quick_runs: 3000, thorough_runs: 300000, watchdog_s: 30,
        rule: "one case = one history with VACUUM at arbitrary points; non-trivial = a VACUUM ran after committed or rolled-back work and a state check followed it; distinct = distinct fingerprints" },
    PropInfo { id: "C15", engine: Engine::Sql, level: "exploration", quick_runs: 5000, thorough_runs: 300000, watchdog_s: 30,
        rule: "one case = one DDL-heavy history (CREATE/DROP/CREATE UNIQUE INDEX inside committed and rolled-back transactions, name reuse, reopen); non-trivial = at least one DDL statement ran inside a session and a later statement resolved that name; distinct = distinct fingerprints" },
    PropInfo { id: "C16", engine: Engine::Sql, level: "exploration", quick_runs: 16000, thorough_runs: 400000, watchdog_s: 20,
        rule: "one case = one history into which malformed, mutated and ill-typed statements are injected at arbitrary points of arbitrary sessions; non-trivial = at least one injected statement was rejected inside an open session and the state was compared afterwards; distinct = distinct fingerprints" },
    PropInfo { id: "C06", engine: Engine::Sql, level: "exploration", quick_runs: 4000, thorough_runs: 150000, watchdog_s: 30,
        rule: "one case = one history followed by plan-variant families of the same logical query (index scan vs predicate no index serves; point vs range form); non-trivial = the variants of at least one family used different physical operators according to EXPLAIN; distinct = distinct fingerprints" },
];

pub const CRASH_PROPS: &[PropInfo] = &[
    PropInfo { id: "C01", engine: Engine::Crash, level: "fault_enumeration", quick_runs: 600, thorough_runs: 6000, watchdog_s: 60,
        rule: "one case = one history (DDL, autocommit statements, multi-statement sessions, batches, checkpoints, reopen) run with the I/O tap on, then EVERY prefix of its recorded file mutations rebuilt as an on-disk image, recovered with Database::open and judged against the acknowledged state; evaluations counts histories, coverage.crash_points counts images; non-trivial = the history had at least one crash point after an acknowledged commit; distinct = distinct fingerprints of (logical event log, I/O sequence)" },
    PropInfo { id: "C02", engine: Engine::Crash, level: "fault_enumeration", quick_runs: 400, thorough_runs: 6000, watchdog_s: 60,
        rule: "as C01, with a mix forcing transactions that are open, rolled back, dropped or failed at the crash point and small caches; non-trivial = at least one crash point fell while a transaction was open or after one was rolled back; distinct = distinct fingerprints of (logical event log, I/O sequence)" },
    PropInfo { id: "C08", engine: Engine::Crash, level: "fault_enumeration", quick_runs: 96, thorough_runs: 2000, watchdog_s: 90,
        rule: "one case = one history; for every I/O prefix: open must succeed, a smoke transaction must work, close+open must change nothing, and for up to 24 prefixes of the recovery's own I/O (nested, depth 2) the restarted recovery must yield the same contents; non-trivial = at least one nested crash point was evaluated; distinct = distinct fingerprints" },
];

pub const STORE_PROPS: &[PropInfo] = &[
    PropInfo { id: "C10", engine: Engine::Btree, level: "exploration", quick_runs: 1500, thorough_runs: 200000, watchdog_s: 40,
        rule: "one case = one sequence of 10-400 insert / upsert / update / remove / lookup / scan / checkpoint operations on a B+tree over a real pager (page 4-16 KiB, min keys 3-6, siblings 1-3, cache 8 pages to unbounded; u64 / i64 / fixed-width text keys; ascending, descending, random and delete-everything orders; one payload size per tree), compared with a BTreeMap after every operation and audited structurally after every mutation; non-trivial = the tree split at least once (depth >= 1); distinct = distinct fingerprints of the operation log" },
    PropInfo { id: "C11", engine: Engine::Btree, level: "exploration", quick_runs: 1500, thorough_runs: 150000, watchdog_s: 40,
        rule: "same runs as C10 with the page-ownership audit as the reported oracle: after every mutation each page 1..total_pages is exactly one of tree node / overflow link / free-list member, the free list is acyclic with the recorded head and tail, and the file does not grow while the free list is non-empty; non-trivial = pages were freed and later taken from the free list; distinct = distinct fingerprints of the operation log" },
    PropInfo { id: "C17", engine: Engine::Wal, level: "fault_enumeration", quick_runs: 2500, thorough_runs: 120000, watchdog_s: 30,
        rule: "one case = one sequence of appends (payload sizes from empty to one block, all record kinds) interleaved with force / close+reopen / truncate / reads with read-ahead 1-6, checked against a vector model after every read, then a crash at EVERY prefix of the recorded file mutations (reopen + read back); non-trivial = the log grew beyond its first block or was truncated or reopened, and at least one non-empty read was compared; distinct = distinct fingerprints of (operation log, I/O sequence)" },
];

pub const WIRE_PROPS: &[PropInfo] = &[
    PropInfo { id: "C20", engine: Engine::Wire, level: "exploration", quick_runs: 6000, thorough_runs: 400000, watchdog_s: 30,
        rule: "one case = 1-6 stream scenarios over a simulated byte pipe: round trips of 1-4 generated Request/Response values under fragmentation, short writes and EINTR; frames truncated at an arbitrary byte then EOF; random / plausible-header garbage; valid frames with header-biased byte changes; non-trivial = at least one round trip ran under fragmentation or EINTR and at least one malformed stream was rejected; distinct = distinct fingerprints of the scenario log; every eighth run index is instead an E1 history (sessions, autocommit statements, DDL, failing statements, vanishing clients, text ending in blanks / quotes / non-ASCII) driven through the real server request loop (process_request, session handling, row rendering) over per-connection BufReader/BufWriter on simulated streams with fragmentation, EINTR, pipelined Pings and broken frames before a disconnect, every response compared with the snapshot-isolation model; such a run is non-trivial when at least one Rows response and one session crossed the wire" },
];

pub const THREAD_PROPS: &[PropInfo] = &[
    PropInfo { id: "C14", engine: Engine::Thread, level: "exploration", quick_runs: 480, thorough_runs: 40000, watchdog_s: 40,
        rule: "one case = one thread schedule: 2-4 client threads (own session or autocommit, same or different tables, 1-4 pool workers) run against the real engine with exactly one thread runnable at a time; a seeded PRNG picks the next thread at every lock / latch / queue / job-wait point; non-trivial = at least 10 context switches and one failed poll (a thread found its lock taken); distinct = distinct hashes of the (thread, site) trace" },
];

pub fn prop(id: &str) -> Option<&'static PropInfo> {
    PROPS.iter().chain(CRASH_PROPS.iter()).chain(STORE_PROPS.iter()).chain(WIRE_PROPS.iter()).chain(THREAD_PROPS.iter()).find(|p| p.id == id)
}

/// Swarm: every run of a property draws its own workload mix.
pub fn profile_for(id: &str, rng: &mut Rng) -> Profile {
    let mut p = Profile::base(id);
    p.max_events = rng.range(12, 64) as u32;
    p.max_sessions = rng.range(1, 3) as u32;
    p.w_batch = *rng.pick(&[0, 4, 8]);
    p.w_failing = *rng.pick(&[0, 4, 8]);
    p.text_cols = rng.chance(60);
    match id {
        "C03" => {
            p.p_rollback = rng.range(40, 70) as u32;
            p.p_drop_session = rng.range(5, 20) as u32;
            p.w_failing = *rng.pick(&[4, 8, 12]);
            p.w_check = 12;
            p.constraints = rng.chance(40);
            // a third of the histories run VACUUM now and then: what a ROLLBACK left behind must stay
            // gone (and what it spared must stay) when VACUUM cleans up and forgets the aborted ids
            p.w_vacuum = *rng.pick(&[0, 0, 3]);
            // (sessions may be open when it runs: VACUUM aborts them - a rollback nobody asked for)
            p.zombie_sessions = rng.chance(50);
        }
        "C04" => {
            p.max_sessions = rng.range(2, 4) as u32;
            p.w_session = 70;
            p.w_auto = 20;
            p.w_ddl = 0;
            p.p_rollback = rng.range(10, 40) as u32;
            p.max_tables = 2;
        }
        "C07" => {
            p.ddl_rich = rng.chance(50);
            p.w_ddl = if p.ddl_rich { 16 } else { 4 };
            // with ddl_rich, constraints arrive by CREATE UNIQUE INDEX / ALTER after the data
            p.constraints = !p.ddl_rich || rng.chance(40);
            p.colliding_keys = true;
            p.reuse_dead_keys = rng.chance(60);
            p.max_sessions = 2;
            p.w_failing = 10;
            p.p_rollback = 40;
        }
        "C09" => {
            if rng.chance(3) {
                p.txn_burst = rng.range(8200, 8400) as u32;
            }
            p.w_reopen = rng.range(4, 10) as u32;
            p.w_flush = *rng.pick(&[0, 3]);
            p.constraints = rng.chance(40);
        }
        "C12" => {
            p.w_flush = 0;
            p.max_events = rng.range(20, 50) as u32;
            // many uniform rows of ~0.5 KiB in two tables: the data outgrows a 32-56 page cache while
            // every cell of a tree has the same size (open findings D31/D32 exclude mixed sizes and overflow)
            p.text_cols = true;
            p.pad_text = 450;
            if let Ok(v) = std::env::var("AXSIM_PAD") {
                p.pad_text = v.parse().unwrap_or(450); // experiment knob, never set by registered checks
                p.max_inserts_per_table = 40;
            }
            p.updates = false; // an UPDATE keeps the old version inside the cell: sizes stop being uniform (D31)
            p.max_tables = 2;
            p.w_ddl = 3;
            p.max_inserts_per_table = 100;
            p.min_events = 90;
            p.max_events = rng.range(100, 170) as u32;
            p.w_auto = 60;
            p.w_session = 25;
            p.max_sessions = 2;
            p.w_failing = 2;
        }
        "C13" => {
            // (D14, D29, D29b, D29c were repaired: VACUUM is explored with several tables, DDL after it
            // and - in autocommit, on tables without a unique index - updated rows)
            p.max_tables = rng.range(1, 2) as u32;
            p.w_ddl = *rng.pick(&[0, 0, 4]);
            // the whole-database page audit runs at every quiescent CHECK: what VACUUM empties must
            // reach the free list, and so must the pages of relations whose creator aborted (L1)
            if rng.chance(40) {
                // wide variant: several leaves of uniform ~0.5 KiB rows, so that VACUUM empties and merges pages
                // (one table, no UPDATE: cells of this size must stay uniform, open findings D31e / D31b)
                // (half of them with a second table and DROP TABLE: a dropped tree of several levels must be
                // released whole)
                let drops = rng.chance(50);
                p.max_tables = if drops { 2 } else { 1 };
                p.w_ddl = if drops { 5 } else { 0 };
                p.updates = false;
                p.text_cols = true;
                p.pad_text = 450;
                p.max_inserts_per_table = 90;
                p.min_events = 30;
                p.max_events = rng.range(40, 90) as u32;
                p.w_auto = 60;
            }
            p.w_vacuum = rng.range(4, 10) as u32;
            p.w_reopen = *rng.pick(&[0, 3]);
            if rng.chance(40) {
                // sessions may be open when VACUUM runs: it aborts them, their clients end them at once
                // (only a statement in such a session is the trigger of open finding V1)
                p.zombie_sessions = true;
                p.max_sessions = rng.range(2, 3) as u32;
            }
        }
        "C06" => {
            p.plan_probes = true;
            p.ddl_rich = true; // indexes created before or after the data
            p.constraints = rng.chance(60);
            p.colliding_keys = rng.chance(50); // duplicate join keys
            p.w_check = 14;
            p.w_ddl = 8;
            p.max_tables = 2;
        }
        "C11" => {
            // DDL and DML with rollbacks, drops, reopen and checkpoints; the page audit runs at every
            // quiescent CHECK
            p.w_ddl = 14;
            // a relation whose creator aborted is garbage until VACUUM releases its pages (L1, repaired)
            p.w_vacuum = *rng.pick(&[0, 4]);
            p.zombie_sessions = rng.chance(50);
            p.w_check = 14;
            p.w_reopen = *rng.pick(&[0, 4]);
            p.w_flush = *rng.pick(&[0, 4]);
            p.constraints = rng.chance(40);
            if rng.chance(33) {
                // trees of several pages (uniform ~0.5 KiB rows) that are dropped - in committed and in
                // rolled-back transactions - and released by VACUUM: every page of every level must reach
                // the free list (seeded change vacuum-dropped-tree-right-subtree-leak leaks the right-most
                // subtree of each interior page, which a one-page table does not have)
                p.text_cols = true;
                p.pad_text = 450;
                p.updates = false;
                p.constraints = false;
                p.max_tables = 2;
                p.w_ddl = 8;
                p.w_vacuum = 6;
                p.w_auto = 60;
                p.min_events = 40;
                p.max_events = rng.range(50, 100) as u32;
            }
        }
        "C15" => {
            p.ddl_rich = true;
            p.w_ddl = 25;
            p.w_reopen = *rng.pick(&[0, 4]);
            p.constraints = rng.chance(50);
        }
        "C20" => {
            // E5b: the history goes through the server; what matters is variety of result shapes
            // (empty, wide, NULLs, non-ASCII text, long text), sessions and vanishing clients
            p.max_sessions = rng.range(1, 3) as u32;
            p.p_drop_session = rng.range(10, 40) as u32;
            p.p_rollback = rng.range(10, 40) as u32;
            p.w_failing = *rng.pick(&[4, 8]);
            p.w_check = 14;
            p.text_cols = true;
            p.exotic_text = rng.chance(70);
            p.constraints = rng.chance(40);
            p.w_reopen = *rng.pick(&[0, 4]);
            p.w_ddl = 8;
            p.plan_probes = rng.chance(30);
            if rng.chance(40) {
                // a client whose transaction VACUUM aborted sends COMMIT / ROLLBACK or vanishes
                p.zombie_sessions = true;
                p.w_vacuum = 8;
                p.max_tables = 1;
                p.w_ddl = 0;
                p.plan_probes = false;
                p.max_sessions = rng.range(2, 3) as u32;
                p.w_session = 60;
            }
        }
        "C16" => {
            p.w_failing = 10;
            p.w_chaos = rng.range(25, 60) as u32;
            p.w_check = 10;
            p.guards.extend(crate::chaos::guards());
        }
        "C01" | "C02" | "C08" => {
            p.min_events = 4;
            p.max_events = rng.range(6, if id == "C08" { 14 } else { 24 }) as u32;
            p.w_flush = *rng.pick(&[0, 4, 10]);
            p.w_reopen = *rng.pick(&[0, 0, 4]);
            p.w_check = 0;
            p.w_ddl = 10;
            // a third of the crash histories use the richer DDL: CREATE UNIQUE INDEX on existing tables,
            // ALTER ... SET / DROP NOT NULL, reuse of dropped names
            p.ddl_rich = rng.chance(33);
            p.max_sessions = 2;
            // rows with overflow chains are not generated here: open findings F7 / D6d
            p.read_burst = if rng.chance(12) { rng.range(240, 420) as u32 } else { 0 };
            if rng.chance(25) {
                // eviction pressure: uniform ~0.5 KiB rows outgrow a small cache, so dirty (also
                // uncommitted) pages are written back before commit
                p.text_cols = true;
                p.pad_text = 450;
                p.max_inserts_per_table = 400;
                p.max_tables = 2;
                // (enough rows to outgrow 24-32 pages: the probe `cache_evictions` stood at zero while these
                // histories had 30-60 events)
                p.min_events = 70;
                p.max_events = rng.range(80, 120) as u32;
                p.updates = false;
                p.small_cache = true;
                p.w_flush = 0;
                p.w_reopen = 0;
                p.w_ddl = 2;
                p.w_auto = 60;
            } else if rng.chance(20) {
                // long histories: several checkpoints, reopens and sessions follow one another, so that
                // what one of them left on disk or in the log is what the next crash recovers over
                // (findings R1 / R1b needed checkpoint -> unfinished DELETE -> log flush -> crash on a
                // table that got a UNIQUE index earlier; histories of 6-24 events almost never line that up)
                p.min_events = if id == "C08" { 20 } else { 40 };
                p.max_events = if id == "C08" { rng.range(24, 40) } else { rng.range(50, 110) } as u32;
                p.w_flush = *rng.pick(&[4, 10]);
                p.w_reopen = *rng.pick(&[0, 4]);
                p.ddl_rich = rng.chance(60);
                p.constraints = rng.chance(50);
            }
            if rng.chance(25) {
                // VACUUM inside crash histories: it rewrites pages in place without logging and ends with a
                // checkpoint; a crash inside it or right after it must leave what was acknowledged
                p.w_vacuum = 4;
            }
            p.guards.push("crash_after_stolen_page".into()); // S1 (fault-space guard)
            p.guards.push("checkpoint_with_open_txn".into()); // F4
            if id == "C08" {
                p.guards.push("crash_after_recovery_truncated_log".into()); // F6 (fault-space guard)
            }
            p.guards.push("crash_inside_checkpoint_page_writes".into()); // D22b (fault-space guard)
            if id == "C02" {
                p.p_rollback = rng.range(40, 70) as u32;
                p.w_session = 70;
                p.w_failing = 8;
            }
        }
        _ => {}
    }
    // eviction pressure in the history simulator: a tenth of the histories of the transactional
    // properties run uniform ~0.5 KiB rows past a cache of 24-32 pages, so that pages - also those of
    // open and later rolled-back transactions - are written back and read again in the middle of
    // everything (the probe `cache_evictions` read zero for all of them: every cache was larger than the data)
    if matches!(id, "C03" | "C04" | "C07" | "C09" | "C13" | "C15" | "C20") && p.pad_text == 0 && p.txn_burst == 0 && rng.chance(10) {
        p.text_cols = true;
        p.pad_text = 450;
        p.small_cache = true;
        p.updates = false; // cells of this size must stay uniform (open findings D31e / D31b)
        p.max_tables = p.max_tables.min(2);
        p.max_inserts_per_table = 400;
        p.min_events = 80;
        p.max_events = rng.range(90, 150) as u32;
        p.w_auto = p.w_auto.max(40);
        p.w_reopen = 0;
    }
    // long lives (since the repair of D9 / D15b a table is no longer limited to 32 inserts): an eighth
    // of the histories keeps one or two tables for a few hundred statements, so that trees and
    // catalog rows live through many more transactions than the short histories give them
    if matches!(id, "C03" | "C04" | "C06" | "C07" | "C09" | "C13" | "C15" | "C16" | "C20") && p.pad_text == 0 && p.txn_burst == 0 && rng.chance(12) {
        p.max_inserts_per_table = 400;
        p.min_events = 120;
        p.max_events = rng.range(150, 320) as u32;
        p.max_tables = p.max_tables.min(2);
    }
    // experiment knob (never set by the registered checks): longer lives per table
    if let Ok(v) = std::env::var("AXSIM_MAXINS") {
        let n: u32 = v.parse().unwrap_or(18);
        p.max_inserts_per_table = n;
        p.min_events = p.min_events.max(n / 2);
        p.max_events = p.max_events.max(n * 2);
    }
    // finding-hunting mode: drop the named guards (never set by the registered checks)
    if let Ok(ng) = std::env::var("AXSIM_NOGUARD") {
        let drop: Vec<&str> = ng.split(',').collect();
        p.guards.retain(|g| !drop.contains(&g.as_str()));
    }
    p
}
