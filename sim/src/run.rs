//! One simulated run: types shared by all engines, and the E1 entry points.
use crate::eng::Cfg;
use crate::hgen::{Gen, Profile, pick_cfg};
use crate::props;
use crate::sqlsim::{Sim, Violation};
use crate::stmt::Event;
use crate::util::{self, Rng};
use serde::{Deserialize, Serialize};
use serde_json::{Value, json};
use std::collections::BTreeMap;

#[derive(Clone, Debug, Serialize, Deserialize)]
pub struct RunResult {
    pub idx: u64,
    pub seed: u64,
    pub violation: Option<Violation>,
    pub counters: BTreeMap<String, u64>,
    pub fingerprint: u64,
    pub steps: u64,
    /// replay payload (always present, so that a dead worker's seed can be replayed)
    pub replay: Option<Value>,
    pub hazards: Vec<String>,
}

#[derive(Clone, Debug, Serialize, Deserialize)]
pub struct SqlReplay {
    pub property: String,
    pub engine: String,
    pub seed: u64,
    pub cfg: Cfg,
    pub allow_oom: bool,
    pub guards: Vec<String>,
    pub events: Vec<Event>,
    /// C12: the same history is also run under each of these configurations
    #[serde(default)]
    pub alt_cfgs: Vec<Cfg>,
    /// E5b (C20): run the history through the wire protocol and the server's request loop
    #[serde(default)]
    pub served: Option<crate::served::ServedCfg>,
    #[serde(default)]
    pub violation: Option<Violation>,
    #[serde(default)]
    pub trace: Vec<String>,
}

pub fn gen_sql_case(prop: &str, verif_seed: u64, idx: u64) -> SqlReplay {
    let seed = util::mix(verif_seed, prop, idx);
    let mut rng = Rng::new(seed);
    let cfg = pick_cfg(&mut rng);
    let profile: Profile = props::profile_for(prop, &mut rng);
    let guards = profile.guards.clone();
    let cfg = if profile.small_cache { Cfg { cache: 24 + (seed % 9) as usize, page: 4096, ..cfg } } else { cfg };
    let events = Gen::new(rng.next(), profile).generate(pick_cfg);
    let engine = match props::prop(prop).map(|p| p.engine) {
        Some(props::Engine::Crash) => "E2-crashsim",
        _ => "E1-sqlsim",
    };
    let mut alt_cfgs = vec![];
    let mut cfg = cfg;
    if prop == "C12" {
        // reference configuration, a small cache (evictions), and a random geometry
        cfg = Cfg { page: 4096, cache: 10000, pool: 1, min_keys: 3, siblings: 2 };
        let mut r2 = Rng::new(seed ^ 0xC12);
        alt_cfgs.push(Cfg { page: *r2.pick(&[4096usize, 4096, 8192]), cache: r2.range(24, 36) as usize, pool: *r2.pick(&[1usize, 2]), min_keys: r2.range(3, 5) as usize, siblings: r2.range(1, 3) as usize });
        alt_cfgs.push(Cfg { page: *r2.pick(&[8192usize, 16384, 32768, 65536]), cache: r2.range(40, 400) as usize, pool: *r2.pick(&[1usize, 4, 8]), min_keys: r2.range(3, 6) as usize, siblings: r2.range(1, 3) as usize });
    }
    let mut served = None;
    let mut engine = engine;
    if prop == "C20" {
        let mut r3 = Rng::new(seed ^ 0xC20);
        served = Some(crate::served::ServedCfg { pipe_seed: r3.next(), eintr: *r3.pick(&[0u64, 0, 10, 30]), frag: r3.below(3), ping_pct: *r3.pick(&[0u64, 10, 40]), garbage_pct: *r3.pick(&[0u64, 50, 100]), rebegin_pct: *r3.pick(&[0u64, 15, 40]), loopback: idx % 64 == 63 });
        engine = "E1-sqlsim/E5b-served";
    }
    SqlReplay { property: prop.into(), engine: engine.into(), seed, cfg, allow_oom: false, guards, events, alt_cfgs, served, violation: None, trace: vec![] }
}

/// Harness self-check: a generated history must not trip the guards it was generated under.
pub fn audit_generated(case: &SqlReplay) -> Option<(usize, String)> {
    crate::guards::first_violation(&case.events, &case.guards)
}

pub fn run_sql_case(case: &SqlReplay, idx: u64) -> RunResult {
    if case.alt_cfgs.is_empty() {
        return run_sql_case_one(case, idx);
    }
    // differential over configurations: same history, k databases
    let mut total: Option<RunResult> = None;
    let mut cfgs = vec![case.cfg];
    cfgs.extend(case.alt_cfgs.iter().copied());
    for (n, cfg) in cfgs.iter().enumerate() {
        let mut c = case.clone();
        c.cfg = *cfg;
        c.alt_cfgs = vec![];
        let dir = util::fresh_dir("c12");
        axmosdb::verif::io::start(&dir);
        let mut r = run_sql_case_in(&c, idx, &dir);
        let log = axmosdb::verif::io::stop();
        // eviction write-backs = page writes to the db file outside checkpoints (no Flush/Reopen/Vacuum in these histories)
        let end = log.iter().position(|e| e.kind == axmosdb::verif::io::Kind::Mark && e.note == "history-end").unwrap_or(log.len());
        let evict = log[..end].iter().filter(|e| e.kind == axmosdb::verif::io::Kind::Write && e.file != "axmos.log").count() as u64;
        r.counters.insert(format!("cfg{n}_db_page_writes_before_close"), evict);
        let _ = evict;
        let ev = r.counters.get("cache_evictions").copied().unwrap_or(0);
        r.counters.insert(format!("cfg{n}_cache_evictions"), ev);
        if n > 0 && ev > 0 {
            *r.counters.entry("configurations_that_evicted".into()).or_insert(0) += 1;
        }
        if let Some(v) = &mut r.violation {
            v.detail = format!("configuration #{n} {:?}: {}", cfg, v.detail);
            let mut rp = case.clone();
            rp.violation = Some(v.clone());
            r.replay = Some(serde_json::to_value(&rp).unwrap());
            return r;
        }
        match &mut total {
            None => total = Some(r),
            Some(t) => {
                if t.fingerprint != r.fingerprint {
                    // same logical log expected under every configuration
                    let v = Violation { oracle: "O-config".into(), event: 0, detail: format!("configuration #{n} {:?} produced a different logical event log than configuration #0", cfg) };
                    let mut rp = case.clone();
                    rp.violation = Some(v.clone());
                    t.violation = Some(v);
                    t.replay = Some(serde_json::to_value(&rp).unwrap());
                    return total.unwrap();
                }
                for (k, v) in r.counters {
                    if k.starts_with("cfg") || k == "configurations_that_evicted" {
                        *t.counters.entry(k).or_insert(0) += v;
                    }
                }
                t.steps += r.steps;
            }
        }
    }
    total.unwrap()
}

pub fn run_sql_case_one(case: &SqlReplay, idx: u64) -> RunResult {
    let dir = util::fresh_dir("e1");
    run_sql_case_in(case, idx, &dir)
}

pub fn run_sql_case_in(case: &SqlReplay, idx: u64, dir: &std::path::Path) -> RunResult {
    let dir = dir.to_path_buf();
    let mut res = RunResult { idx, seed: case.seed, violation: None, counters: BTreeMap::new(), fingerprint: 0, steps: case.events.len() as u64, replay: None, hazards: vec![] };
    let sim = match case.served {
        Some(sc) => Sim::new_served(&dir, case.cfg, sc),
        None => Sim::new(&dir, case.cfg),
    };
    match sim {
        Err(e) => {
            res.violation = Some(Violation { oracle: "O-open".into(), event: 0, detail: format!("Database::create failed: {e}") });
        }
        Ok(mut sim) => {
            sim.allow_oom = case.allow_oom;
            sim.page_audit = case.property == "C11" || case.property == "C13";
            res.violation = sim.run(&case.events);
            axmosdb::verif::io::mark("history-end");
            let stats = sim.finish();
            res.counters = stats.counters;
            res.fingerprint = stats.fingerprint;
            res.hazards = stats.hazards;
            if res.violation.is_some() {
                let mut c = case.clone();
                c.violation = res.violation.clone();
                c.trace = stats.trace;
                res.replay = Some(serde_json::to_value(&c).unwrap());
            }
        }
    }
    let _ = std::fs::remove_dir_all(&dir);
    res
}

pub fn sample_of(case: &SqlReplay) -> Value {
    json!({
        "seed": case.seed,
        "cfg": case.cfg,
        "events": case.events.iter().map(|e| e.short()).collect::<Vec<_>>(),
    })
}
