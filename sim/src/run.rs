//! One simulated run: types shared by all engines, and the E1 entry points.
use crate::eng::Cfg;
use crate::hgen::{Gen, Profile, pick_cfg};
use crate::props;
use crate::sqlsim::{Sim, Violation};
use crate::stmt::Event;
use crate::util::{self, Rng};
use serde::{Deserialize, Serialize};
use serde_json::{Value, json};
use std::collections::BTreeMap;

#[derive(Clone, Debug, Serialize, Deserialize)]
pub struct RunResult {
    pub idx: u64,
    pub seed: u64,
    pub violation: Option<Violation>,
    pub counters: BTreeMap<String, u64>,
    pub fingerprint: u64,
    pub steps: u64,
    /// replay payload (always present, so that a dead worker's seed can be replayed)
    pub replay: Option<Value>,
    pub hazards: Vec<String>,
}

#[derive(Clone, Debug, Serialize, Deserialize)]
pub struct SqlReplay {
    pub property: String,
    pub engine: String,
    pub seed: u64,
    pub cfg: Cfg,
    pub allow_oom: bool,
    pub guards: Vec<String>,
    pub events: Vec<Event>,
    #[serde(default)]
    pub violation: Option<Violation>,
    #[serde(default)]
    pub trace: Vec<String>,
}

pub fn gen_sql_case(prop: &str, verif_seed: u64, idx: u64) -> SqlReplay {
    let seed = util::mix(verif_seed, prop, idx);
    let mut rng = Rng::new(seed);
    let cfg = pick_cfg(&mut rng);
    let profile: Profile = props::profile_for(prop, &mut rng);
    let guards = profile.guards.clone();
    let events = Gen::new(rng.next(), profile).generate(pick_cfg);
    let engine = match props::prop(prop).map(|p| p.engine) {
        Some(props::Engine::Crash) => "E2-crashsim",
        _ => "E1-sqlsim",
    };
    SqlReplay { property: prop.into(), engine: engine.into(), seed, cfg, allow_oom: false, guards, events, violation: None, trace: vec![] }
}

/// Harness self-check: a generated history must not trip the guards it was generated under.
pub fn audit_generated(case: &SqlReplay) -> Option<(usize, String)> {
    crate::guards::first_violation(&case.events, &case.guards)
}

pub fn run_sql_case(case: &SqlReplay, idx: u64) -> RunResult {
    let dir = util::fresh_dir("e1");
    let mut res = RunResult { idx, seed: case.seed, violation: None, counters: BTreeMap::new(), fingerprint: 0, steps: case.events.len() as u64, replay: None, hazards: vec![] };
    match Sim::new(&dir, case.cfg) {
        Err(e) => {
            res.violation = Some(Violation { oracle: "O-open".into(), event: 0, detail: format!("Database::create failed: {e}") });
        }
        Ok(mut sim) => {
            sim.allow_oom = case.allow_oom;
            res.violation = sim.run(&case.events);
            let stats = sim.finish();
            res.counters = stats.counters;
            res.fingerprint = stats.fingerprint;
            res.hazards = stats.hazards;
            if res.violation.is_some() {
                let mut c = case.clone();
                c.violation = res.violation.clone();
                c.trace = stats.trace;
                res.replay = Some(serde_json::to_value(&c).unwrap());
            }
        }
    }
    let _ = std::fs::remove_dir_all(&dir);
    res
}

pub fn sample_of(case: &SqlReplay) -> Value {
    json!({
        "seed": case.seed,
        "cfg": case.cfg,
        "events": case.events.iter().map(|e| e.short()).collect::<Vec<_>>(),
    })
}
