//! E5b: the real server request loop (`process_request`, session handling, row rendering) over
//! simulated byte streams. The server binary's source file is included as a module; its
//! `verif_export` gives one loop iteration over any `Read`/`Write` pair. Each connection has, like
//! the real loop, a `BufReader` over the client-to-server stream and a `BufWriter` over the
//! server-to-client stream, both `SimPipe`s (fragmentation, short writes, `Interrupted`).
#[path = "/repo/crates/axmos-db/src/bin/axmos_server.rs"]
#[allow(dead_code, unused_imports)]
mod server_bin;

use crate::eng::{Cfg, ErrClass, Out, classify};
use crate::util::Rng;
use crate::wiresim::SimPipe;
use axmosdb::Database;
use axmosdb::tcp::{self, Request, Response};
use serde::{Deserialize, Serialize};
use server_bin::verif_export::{Conn, Server};
use std::collections::BTreeMap;
use std::io::{BufReader, BufWriter, Write};
use std::path::{Path, PathBuf};

#[derive(Clone, Copy, Debug, Serialize, Deserialize, PartialEq, Eq)]
pub struct ServedCfg {
    pub pipe_seed: u64,
    pub eintr: u64,
    pub frag: u64,
    /// percent of requests preceded by a pipelined Ping in the same buffer
    pub ping_pct: u64,
    /// percent of vanishing clients that leave a broken frame behind before they go
    pub garbage_pct: u64,
}

struct Link {
    conn: Conn,
    rd: BufReader<SimPipe>,
    wr: BufWriter<SimPipe>,
}

pub struct Served {
    pub server: Server,
    auto: Option<Link>,
    links: BTreeMap<u32, Link>,
    cfg: ServedCfg,
    rng: Rng,
    pub path: PathBuf,
    pub stats: BTreeMap<String, u64>,
    /// first thing that went wrong below the SQL level (protocol error on valid traffic, bytes
    /// left over, wrong response kind); the simulator turns it into an O-wire violation
    pub wire_fault: Option<String>,
}

fn rows_out(columns: Vec<String>, data: Vec<Vec<String>>, fault: &mut Option<String>) -> Out {
    // every row as wide as the header (a non-empty result carries its column names)
    if let Some(r) = data.iter().find(|r| r.len() != columns.len()) {
        fault.get_or_insert(format!("Rows response with {} column names but a row of {} values", columns.len(), r.len()));
    }
    let mut d = data;
    d.sort();
    Out::Rows(d)
}

impl Served {
    pub fn create(dir: &Path, db_file: &str, cfg: Cfg, scfg: ServedCfg) -> Result<Served, String> {
        let server = Server::new(None, cfg.to_db());
        let mut s = Served { server, auto: None, links: BTreeMap::new(), cfg: scfg, rng: Rng::new(scfg.pipe_seed ^ 0x5e7), path: dir.join(db_file), stats: BTreeMap::new(), wire_fault: None };
        s.auto = Some(s.link());
        match s.auto_rt(Request::Create(s.path.to_string_lossy().into_owned())) {
            Ok(Response::Ok(_)) => Ok(s),
            Ok(Response::Error(m)) => Err(m),
            Ok(o) => Err(format!("CREATE answered with {o:?}")),
            Err(e) => Err(e),
        }
    }

    fn bump(&mut self, k: &str) {
        *self.stats.entry(k.to_string()).or_insert(0) += 1;
    }

    fn link(&mut self) -> Link {
        let a = self.rng.next();
        let b = self.rng.next();
        Link { conn: self.server.connect(), rd: BufReader::new(SimPipe::new(a, self.cfg.eintr, self.cfg.frag)), wr: BufWriter::new(SimPipe::new(b, self.cfg.eintr, self.cfg.frag)) }
    }

    /// One request / response exchange on a link. Err = wire-level failure (also recorded).
    fn rt(&mut self, l: &mut Link, req: Request) -> Result<Response, String> {
        let ping = self.rng.below(100) < self.cfg.ping_pct;
        let r = self.rt_inner(l, req, ping);
        if let Err(e) = &r {
            self.wire_fault.get_or_insert(e.clone());
        }
        r
    }

    fn rt_inner(&mut self, l: &mut Link, req: Request, ping: bool) -> Result<Response, String> {
        // client side: write the frame(s) into the client-to-server stream
        {
            let pipe = l.rd.get_mut();
            let (e, f) = (pipe.eintr_pct, pipe.frag);
            pipe.eintr_pct = 0; // the client's own writes are not the object under test
            pipe.frag = 0;
            if ping {
                tcp::send_request(pipe, &Request::Ping).map_err(|e| format!("client could not send Ping: {e}"))?;
            }
            tcp::send_request(pipe, &req).map_err(|e| format!("client could not send the request: {e}"))?;
            pipe.eintr_pct = e;
            pipe.frag = f;
        }
        let n = if ping { 2 } else { 1 };
        for k in 0..n {
            match self.server.serve_one(&mut l.conn, &mut l.rd, &mut l.wr) {
                Ok(true) => {}
                Ok(false) => return Err(format!("the server ended the connection while serving valid request {k}")),
                Err(e) => return Err(format!("the server loop failed on a valid request: {e}")),
            }
            self.bump("requests_served");
        }
        if !l.rd.buffer().is_empty() || !l.rd.get_ref().buf.is_empty() {
            return Err(format!("{} request bytes left unread by the server", l.rd.buffer().len() + l.rd.get_ref().buf.len()));
        }
        let _ = l.wr.flush();
        let pipe = l.wr.get_mut();
        if ping {
            self.bump("pipelined_pings");
            match tcp::recv_response(pipe) {
                Ok(Response::Pong) => {}
                Ok(o) => return Err(format!("Ping answered with {o:?}")),
                Err(e) => return Err(format!("client could not read the Pong: {e}")),
            }
        }
        let resp = tcp::recv_response(pipe).map_err(|e| format!("client could not decode the server's response: {e}"))?;
        if !pipe.buf.is_empty() {
            return Err(format!("{} response bytes left over after the response", pipe.buf.len()));
        }
        for (k, v) in std::mem::take(&mut l.rd.get_mut().stats).into_iter().chain(std::mem::take(&mut pipe.stats)) {
            *self.stats.entry(format!("pipe_{k}")).or_insert(0) += v;
        }
        Ok(resp)
    }

    fn auto_rt(&mut self, req: Request) -> Result<Response, String> {
        let mut l = self.auto.take().expect("auto link");
        let r = self.rt(&mut l, req);
        self.auto = Some(l);
        r
    }

    fn sess_rt(&mut self, s: u32, req: Request) -> Option<Result<Response, String>> {
        let mut l = self.links.remove(&s)?;
        let r = self.rt(&mut l, req);
        self.links.insert(s, l);
        Some(r)
    }

    fn sql_out(&mut self, r: Result<Response, String>) -> Out {
        match r {
            Ok(Response::Rows { columns, data }) => {
                self.bump("rows_responses");
                if data.is_empty() {
                    self.bump("rows_responses_empty");
                }
                rows_out(columns, data, &mut self.wire_fault)
            }
            Ok(Response::RowsAffected(n)) => Out::Count(n as u64),
            Ok(Response::Ddl(_)) => Out::Ddl,
            Ok(Response::Error(m)) => {
                self.bump("error_responses");
                Out::Err(classify(&m), m)
            }
            Ok(o) => {
                let m = format!("SQL answered with {o:?}");
                self.wire_fault.get_or_insert(m.clone());
                Out::Err(ErrClass::Internal, m)
            }
            Err(e) => Out::Err(ErrClass::Internal, format!("wire: {e}")),
        }
    }

    fn simple(&mut self, r: Result<Response, String>, want: fn(&Response) -> bool) -> Out {
        match r {
            Ok(Response::Error(m)) => Out::Err(classify(&m), m),
            Ok(o) if want(&o) => Out::Ok,
            Ok(o) => {
                let m = format!("unexpected response kind {o:?}");
                self.wire_fault.get_or_insert(m.clone());
                Out::Err(ErrClass::Internal, m)
            }
            Err(e) => Out::Err(ErrClass::Internal, format!("wire: {e}")),
        }
    }

    pub fn exec(&mut self, sql: &str) -> Out {
        let r = self.auto_rt(Request::Sql(sql.to_string()));
        self.sql_out(r)
    }
    pub fn begin(&mut self, s: u32) -> Out {
        let l = self.link();
        self.links.insert(s, l);
        let r = self.sess_rt(s, Request::Begin).unwrap();
        let o = self.simple(r, |x| matches!(x, Response::SessionStarted));
        if o.is_err() {
            if let Some(l) = self.links.remove(&s) {
                self.server.disconnect(l.conn);
            }
        }
        o
    }
    pub fn sexec(&mut self, s: u32, sql: &str) -> Out {
        match self.sess_rt(s, Request::Sql(sql.to_string())) {
            Some(r) => self.sql_out(r),
            None => Out::Err(ErrClass::Other, "no such session".into()),
        }
    }
    fn end(&mut self, s: u32, req: Request) -> Out {
        match self.sess_rt(s, req) {
            Some(r) => {
                let o = self.simple(r, |x| matches!(x, Response::SessionEnd));
                if let Some(l) = self.links.remove(&s) {
                    if Server::in_transaction(&l.conn) {
                        self.wire_fault.get_or_insert("the connection still has a transaction after COMMIT / ROLLBACK was answered".into());
                    }
                    self.server.disconnect(l.conn);
                }
                o
            }
            None => Out::Err(ErrClass::Other, "no such session".into()),
        }
    }
    pub fn commit(&mut self, s: u32) -> Out {
        self.end(s, Request::Commit)
    }
    pub fn abort(&mut self, s: u32) -> Out {
        self.end(s, Request::Rollback)
    }
    /// The client vanishes (connection closed, possibly after a broken frame).
    pub fn drop_session(&mut self, s: u32) {
        let Some(mut l) = self.links.remove(&s) else { return };
        if self.rng.below(100) < self.cfg.garbage_pct {
            // a frame header announcing more bytes than ever arrive, or an unknown command
            let junk: Vec<u8> = match self.rng.below(3) {
                0 => vec![9, 0, 0, 0, 1, 0xEE, 1],
                1 => vec![3, 0, 0, 0, 1, 0xEE, 0],
                _ => vec![0xff, 0xff, 0xff, 0x7f],
            };
            l.rd.get_mut().buf.extend(junk);
            self.bump("broken_frames_before_disconnect");
            match self.server.serve_one(&mut l.conn, &mut l.rd, &mut l.wr) {
                Ok(false) | Err(_) => {}
                Ok(true) => {
                    self.wire_fault.get_or_insert("the server answered a broken frame as if it were a request".into());
                }
            }
        } else {
            // plain EOF: the loop must end quietly
            match self.server.serve_one(&mut l.conn, &mut l.rd, &mut l.wr) {
                Ok(false) => {}
                Ok(true) => {
                    self.wire_fault.get_or_insert("the server served a request from a closed connection".into());
                }
                Err(e) => {
                    self.wire_fault.get_or_insert(format!("EOF from the client was reported as an error: {e}"));
                }
            }
        }
        self.bump("disconnects_in_transaction");
        self.server.disconnect(l.conn);
    }
    pub fn vacuum(&mut self) -> Out {
        match self.auto_rt(Request::Vacuum) {
            Ok(Response::VacuumComplete { bytes_freed, .. }) => Out::Count(bytes_freed as u64),
            Ok(Response::Error(m)) => Out::Err(classify(&m), m),
            Ok(o) => {
                let m = format!("VACUUM answered with {o:?}");
                self.wire_fault.get_or_insert(m.clone());
                Out::Err(ErrClass::Internal, m)
            }
            Err(e) => Out::Err(ErrClass::Internal, format!("wire: {e}")),
        }
    }
    pub fn analyze(&mut self) -> Out {
        let r = self.auto_rt(Request::Analyze { sample_rate: 1.0, max_sample_rows: 10000 });
        self.simple(r, |x| matches!(x, Response::Ok(_)))
    }
    pub fn explain(&mut self, sql: &str) -> Result<String, String> {
        match self.auto_rt(Request::Explain(sql.to_string())) {
            Ok(Response::Explain(p)) => Ok(p),
            Ok(Response::Error(m)) => Err(m),
            Ok(o) => Err(format!("{o:?}")),
            Err(e) => Err(e),
        }
    }
    fn drop_links(&mut self) {
        for (_, l) in std::mem::take(&mut self.links) {
            self.server.disconnect(l.conn);
        }
    }
    pub fn reopen(&mut self) -> Out {
        self.drop_links();
        let r = self.auto_rt(Request::Close);
        let o = self.simple(r, |x| matches!(x, Response::Goodbye));
        if o.is_err() {
            return o;
        }
        let r = self.auto_rt(Request::Open(self.path.to_string_lossy().into_owned()));
        self.simple(r, |x| matches!(x, Response::Ok(_)))
    }
    pub fn close(&mut self) {
        self.drop_links();
        let _ = self.auto_rt(Request::Close);
    }
    pub fn with_db<T>(&self, f: impl FnOnce(Option<&Database>) -> T) -> T {
        self.server.with_db(f)
    }
}
