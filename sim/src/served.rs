//! E5b: the real server request loop (`process_request`, session handling, row rendering) over
//! simulated byte streams. The server binary's source file is included as a module; its
//! `verif_export` gives one loop iteration over any `Read`/`Write` pair. Each connection has, like
//! the real loop, a `BufReader` over the client-to-server stream and a `BufWriter` over the
//! server-to-client stream, both `SimPipe`s (fragmentation, short writes, `Interrupted`).
#[path = "/repo/crates/axmos-db/src/bin/axmos_server.rs"]
#[allow(dead_code, unused_imports)]
mod server_bin;

use crate::eng::{Cfg, ErrClass, Out, classify};
use crate::util::Rng;
use crate::wiresim::SimPipe;
use axmosdb::Database;
use axmosdb::tcp::{self, Request, Response};
use serde::{Deserialize, Serialize};
use server_bin::verif_export::{Conn, Server};
use std::collections::BTreeMap;
use std::io::{BufReader, BufWriter, Write};
use std::net::{Shutdown, TcpListener, TcpStream};
use std::thread::JoinHandle;
use std::time::Duration;
use std::path::{Path, PathBuf};

#[derive(Clone, Copy, Debug, Serialize, Deserialize, PartialEq, Eq)]
pub struct ServedCfg {
    pub pipe_seed: u64,
    pub eintr: u64,
    pub frag: u64,
    /// percent of requests preceded by a pipelined Ping in the same buffer
    pub ping_pct: u64,
    /// percent of vanishing clients that leave a broken frame behind before they go
    pub garbage_pct: u64,
    /// percent of session statements preceded by a redundant BEGIN on the same connection (it must be
    /// refused and must leave the open transaction alone)
    #[serde(default)]
    pub rebegin_pct: u64,
    /// E5c: connections are real loopback TCP connections served by the real `run_client_loop` on its
    /// own thread (one request in flight at a time, so the outcome does not depend on scheduling)
    #[serde(default)]
    pub loopback: bool,
}

enum Link {
    InProc { conn: Conn, rd: BufReader<SimPipe>, wr: BufWriter<SimPipe> },
    Tcp { stream: TcpStream, th: Option<JoinHandle<Result<(), String>>> },
}

const TCP_PATIENCE: Duration = Duration::from_secs(20);

pub struct Served {
    pub server: Server,
    auto: Option<Link>,
    links: BTreeMap<u32, Link>,
    cfg: ServedCfg,
    listener: Option<TcpListener>,
    rng: Rng,
    pub path: PathBuf,
    pub stats: BTreeMap<String, u64>,
    /// first thing that went wrong below the SQL level (protocol error on valid traffic, bytes
    /// left over, wrong response kind); the simulator turns it into an O-wire violation
    pub wire_fault: Option<String>,
}

fn rows_out(columns: Vec<String>, data: Vec<Vec<String>>, fault: &mut Option<String>) -> Out {
    // every row as wide as the header (a non-empty result carries its column names)
    if let Some(r) = data.iter().find(|r| r.len() != columns.len()) {
        fault.get_or_insert(format!("Rows response with {} column names but a row of {} values", columns.len(), r.len()));
    }
    let mut d = data;
    d.sort();
    Out::Rows(d)
}

impl Served {
    pub fn create(dir: &Path, db_file: &str, cfg: Cfg, scfg: ServedCfg) -> Result<Served, String> {
        let server = Server::new(None, cfg.to_db());
        let mut listener = None;
        let mut fell_back = false;
        if scfg.loopback {
            match TcpListener::bind("127.0.0.1:0") {
                Ok(l) => listener = Some(l),
                Err(_) => fell_back = true, // no loopback here: the run goes through the simulated streams
            }
        }
        let mut s = Served { server, auto: None, links: BTreeMap::new(), cfg: scfg, listener, rng: Rng::new(scfg.pipe_seed ^ 0x5e7), path: dir.join(db_file), stats: BTreeMap::new(), wire_fault: None };
        if fell_back {
            s.bump("loopback_unavailable_fell_back_to_simulated_streams");
        }
        s.auto = Some(s.link());
        match s.auto_rt(Request::Create(s.path.to_string_lossy().into_owned())) {
            Ok(Response::Ok(_)) => Ok(s),
            Ok(Response::Error(m)) => Err(m),
            Ok(o) => Err(format!("CREATE answered with {o:?}")),
            Err(e) => Err(e),
        }
    }

    fn bump(&mut self, k: &str) {
        *self.stats.entry(k.to_string()).or_insert(0) += 1;
    }

    fn link(&mut self) -> Link {
        if let Some(l) = &self.listener {
            let addr = l.local_addr().expect("listener address");
            if let Ok(client) = TcpStream::connect(addr) {
                if let Ok((accepted, _)) = l.accept() {
                    let _ = client.set_read_timeout(Some(TCP_PATIENCE));
                    let _ = client.set_write_timeout(Some(TCP_PATIENCE));
                    let _ = client.set_nodelay(true);
                    let th = self.server.spawn_loop(accepted);
                    self.bump("loopback_connections");
                    return Link::Tcp { stream: client, th: Some(th) };
                }
            }
            self.bump("loopback_unavailable_fell_back_to_simulated_streams");
        }
        let a = self.rng.next();
        let b = self.rng.next();
        Link::InProc { conn: self.server.connect(), rd: BufReader::new(SimPipe::new(a, self.cfg.eintr, self.cfg.frag)), wr: BufWriter::new(SimPipe::new(b, self.cfg.eintr, self.cfg.frag)) }
    }

    /// The client side goes away: in-process the loop's tail runs; over TCP the socket is closed and
    /// the server thread (the real loop, then its tail) is waited for.
    fn hang_up(&mut self, l: Link) {
        match l {
            Link::InProc { conn, .. } => self.server.disconnect(conn),
            Link::Tcp { stream, mut th } => {
                let _ = stream.shutdown(Shutdown::Both);
                drop(stream);
                if let Some(h) = th.take() {
                    match h.join() {
                        Ok(Ok(())) => {}
                        Ok(Err(_)) => self.bump("server_loops_ended_with_an_error"),
                        Err(_) => {
                            self.wire_fault.get_or_insert("the server's connection thread panicked".into());
                        }
                    }
                }
            }
        }
    }

    /// One request / response exchange on a link. Err = wire-level failure (also recorded).
    fn rt(&mut self, l: &mut Link, req: Request) -> Result<Response, String> {
        let ping = self.rng.below(100) < self.cfg.ping_pct;
        let r = self.rt_inner(l, req, ping);
        if let Err(e) = &r {
            self.wire_fault.get_or_insert(e.clone());
        }
        r
    }

    fn rt_inner(&mut self, l: &mut Link, req: Request, ping: bool) -> Result<Response, String> {
        let (conn, rd, wr) = match l {
            Link::InProc { conn, rd, wr } => (conn, rd, wr),
            Link::Tcp { stream, .. } => {
                // several frames in ONE write, then the answers in order
                let pings = if ping { 1 + self.rng.below(3) } else { 0 };
                let mut bytes: Vec<u8> = vec![];
                for _ in 0..pings {
                    tcp::send_request(&mut bytes, &Request::Ping).map_err(|e| e.to_string())?;
                }
                tcp::send_request(&mut bytes, &req).map_err(|e| format!("client could not encode the request: {e}"))?;
                stream.write_all(&bytes).map_err(|e| format!("client could not write to the connection: {e}"))?;
                for k in 0..pings {
                    self.bump("pipelined_pings");
                    match tcp::recv_response(stream) {
                        Ok(Response::Pong) => {}
                        Ok(o) => return Err(format!("Ping answered with {o:?}")),
                        Err(e) => return Err(format!("pipelined Ping {k} was not answered: {e}")),
                    }
                }
                self.bump("requests_served");
                return tcp::recv_response(stream).map_err(|e| format!("request {} of {} sent in one write was not answered within {:?}: {e}", pings + 1, pings + 1, TCP_PATIENCE));
            }
        };
        // client side: write the frame(s) into the client-to-server stream
        {
            let pipe = rd.get_mut();
            let (e, f) = (pipe.eintr_pct, pipe.frag);
            pipe.eintr_pct = 0; // the client's own writes are not the object under test
            pipe.frag = 0;
            if ping {
                tcp::send_request(pipe, &Request::Ping).map_err(|e| format!("client could not send Ping: {e}"))?;
            }
            tcp::send_request(pipe, &req).map_err(|e| format!("client could not send the request: {e}"))?;
            pipe.eintr_pct = e;
            pipe.frag = f;
        }
        let n = if ping { 2 } else { 1 };
        for k in 0..n {
            match self.server.serve_one(conn, rd, wr) {
                Ok(true) => {}
                Ok(false) => return Err(format!("the server ended the connection while serving valid request {k}")),
                Err(e) => return Err(format!("the server loop failed on a valid request: {e}")),
            }
            self.bump("requests_served");
        }
        if !rd.buffer().is_empty() || !rd.get_ref().buf.is_empty() {
            return Err(format!("{} request bytes left unread by the server", rd.buffer().len() + rd.get_ref().buf.len()));
        }
        let _ = wr.flush();
        let pipe = wr.get_mut();
        if ping {
            self.bump("pipelined_pings");
            match tcp::recv_response(pipe) {
                Ok(Response::Pong) => {}
                Ok(o) => return Err(format!("Ping answered with {o:?}")),
                Err(e) => return Err(format!("client could not read the Pong: {e}")),
            }
        }
        let resp = tcp::recv_response(pipe).map_err(|e| format!("client could not decode the server's response: {e}"))?;
        if !pipe.buf.is_empty() {
            return Err(format!("{} response bytes left over after the response", pipe.buf.len()));
        }
        for (k, v) in std::mem::take(&mut rd.get_mut().stats).into_iter().chain(std::mem::take(&mut pipe.stats)) {
            *self.stats.entry(format!("pipe_{k}")).or_insert(0) += v;
        }
        Ok(resp)
    }

    fn auto_rt(&mut self, req: Request) -> Result<Response, String> {
        let mut l = self.auto.take().expect("auto link");
        let r = self.rt(&mut l, req);
        self.auto = Some(l);
        r
    }

    fn sess_rt(&mut self, s: u32, req: Request) -> Option<Result<Response, String>> {
        let mut l = self.links.remove(&s)?;
        let r = self.rt(&mut l, req);
        self.links.insert(s, l);
        Some(r)
    }

    fn sql_out(&mut self, r: Result<Response, String>) -> Out {
        match r {
            Ok(Response::Rows { columns, data }) => {
                self.bump("rows_responses");
                if data.is_empty() {
                    self.bump("rows_responses_empty");
                }
                rows_out(columns, data, &mut self.wire_fault)
            }
            Ok(Response::RowsAffected(n)) => Out::Count(n as u64),
            Ok(Response::Ddl(_)) => Out::Ddl,
            Ok(Response::Error(m)) => {
                self.bump("error_responses");
                Out::Err(classify(&m), m)
            }
            Ok(o) => {
                let m = format!("SQL answered with {o:?}");
                self.wire_fault.get_or_insert(m.clone());
                Out::Err(ErrClass::Internal, m)
            }
            Err(e) => Out::Err(ErrClass::Internal, format!("wire: {e}")),
        }
    }

    fn simple(&mut self, r: Result<Response, String>, want: fn(&Response) -> bool) -> Out {
        match r {
            Ok(Response::Error(m)) => Out::Err(classify(&m), m),
            Ok(o) if want(&o) => Out::Ok,
            Ok(o) => {
                let m = format!("unexpected response kind {o:?}");
                self.wire_fault.get_or_insert(m.clone());
                Out::Err(ErrClass::Internal, m)
            }
            Err(e) => Out::Err(ErrClass::Internal, format!("wire: {e}")),
        }
    }

    pub fn exec(&mut self, sql: &str) -> Out {
        let r = self.auto_rt(Request::Sql(sql.to_string()));
        self.sql_out(r)
    }
    pub fn begin(&mut self, s: u32) -> Out {
        let l = self.link();
        self.links.insert(s, l);
        let r = self.sess_rt(s, Request::Begin).unwrap();
        let o = self.simple(r, |x| matches!(x, Response::SessionStarted));
        if o.is_err() {
            if let Some(l) = self.links.remove(&s) {
                self.hang_up(l);
            }
        }
        o
    }
    pub fn sexec(&mut self, s: u32, sql: &str) -> Out {
        if self.links.contains_key(&s) && self.rng.below(100) < self.cfg.rebegin_pct {
            self.bump("redundant_begins");
            match self.sess_rt(s, Request::Begin) {
                Some(Ok(Response::Error(_))) | None => {}
                Some(Ok(o)) => {
                    self.wire_fault.get_or_insert(format!("BEGIN inside an open transaction was answered with {o:?}"));
                }
                Some(Err(_)) => {}
            }
        }
        match self.sess_rt(s, Request::Sql(sql.to_string())) {
            Some(r) => self.sql_out(r),
            None => Out::Err(ErrClass::Other, "no such session".into()),
        }
    }
    fn end(&mut self, s: u32, req: Request) -> Out {
        match self.sess_rt(s, req.clone()) {
            Some(r) => {
                let refused = matches!(r, Ok(Response::Error(_)));
                let o = self.simple(r, |x| matches!(x, Response::SessionEnd));
                if refused {
                    // the client asks again: a transaction whose COMMIT / ROLLBACK was refused is gone,
                    // the repeated request must not be acknowledged
                    self.bump("refused_transaction_ends_retried");
                    if let Some(Ok(Response::SessionEnd)) = self.sess_rt(s, req) {
                        self.wire_fault.get_or_insert("a COMMIT / ROLLBACK repeated after it had been refused was acknowledged (SessionEnd)".into());
                    }
                }
                if let Some(l) = self.links.remove(&s) {
                    if let Link::InProc { conn, .. } = &l {
                        if Server::in_transaction(conn) {
                            self.wire_fault.get_or_insert("the connection still has a transaction after COMMIT / ROLLBACK was answered".into());
                        }
                    }
                    self.hang_up(l);
                }
                o
            }
            None => Out::Err(ErrClass::Other, "no such session".into()),
        }
    }
    pub fn commit(&mut self, s: u32) -> Out {
        self.end(s, Request::Commit)
    }
    pub fn abort(&mut self, s: u32) -> Out {
        self.end(s, Request::Rollback)
    }
    /// The client vanishes (connection closed, possibly after a broken frame).
    pub fn drop_session(&mut self, s: u32) {
        let Some(mut l) = self.links.remove(&s) else { return };
        let junk: Option<Vec<u8>> = if self.rng.below(100) < self.cfg.garbage_pct {
            // a frame header announcing more bytes than ever arrive, an unknown command, an oversize prefix
            self.bump("broken_frames_before_disconnect");
            Some(match self.rng.below(3) {
                0 => vec![9, 0, 0, 0, 1, 0xEE, 1],
                1 => vec![3, 0, 0, 0, 1, 0xEE, 0],
                _ => vec![0xff, 0xff, 0xff, 0x7f],
            })
        } else {
            None
        };
        match &mut l {
            Link::InProc { conn, rd, wr } => match junk {
                Some(j) => {
                    rd.get_mut().buf.extend(j);
                    match self.server.serve_one(conn, rd, wr) {
                        Ok(false) | Err(_) => {}
                        Ok(true) => {
                            self.wire_fault.get_or_insert("the server answered a broken frame as if it were a request".into());
                        }
                    }
                }
                None => {
                    // plain EOF: the loop must end quietly
                    match self.server.serve_one(conn, rd, wr) {
                        Ok(false) => {}
                        Ok(true) => {
                            self.wire_fault.get_or_insert("the server served a request from a closed connection".into());
                        }
                        Err(e) => {
                            self.wire_fault.get_or_insert(format!("EOF from the client was reported as an error: {e}"));
                        }
                    }
                }
            },
            Link::Tcp { stream, .. } => {
                if let Some(j) = junk {
                    let _ = stream.write_all(&j);
                }
            }
        }
        self.bump("disconnects_in_transaction");
        self.hang_up(l);
    }
    pub fn vacuum(&mut self) -> Out {
        match self.auto_rt(Request::Vacuum) {
            Ok(Response::VacuumComplete { bytes_freed, .. }) => Out::Count(bytes_freed as u64),
            Ok(Response::Error(m)) => Out::Err(classify(&m), m),
            Ok(o) => {
                let m = format!("VACUUM answered with {o:?}");
                self.wire_fault.get_or_insert(m.clone());
                Out::Err(ErrClass::Internal, m)
            }
            Err(e) => Out::Err(ErrClass::Internal, format!("wire: {e}")),
        }
    }
    pub fn analyze(&mut self) -> Out {
        let r = self.auto_rt(Request::Analyze { sample_rate: 1.0, max_sample_rows: 10000 });
        self.simple(r, |x| matches!(x, Response::Ok(_)))
    }
    pub fn explain(&mut self, sql: &str) -> Result<String, String> {
        match self.auto_rt(Request::Explain(sql.to_string())) {
            Ok(Response::Explain(p)) => Ok(p),
            Ok(Response::Error(m)) => Err(m),
            Ok(o) => Err(format!("{o:?}")),
            Err(e) => Err(e),
        }
    }
    fn drop_links(&mut self) {
        for (_, l) in std::mem::take(&mut self.links) {
            self.hang_up(l);
        }
    }
    pub fn reopen(&mut self) -> Out {
        self.drop_links();
        let r = self.auto_rt(Request::Close);
        let o = self.simple(r, |x| matches!(x, Response::Goodbye));
        if o.is_err() {
            return o;
        }
        let r = self.auto_rt(Request::Open(self.path.to_string_lossy().into_owned()));
        self.simple(r, |x| matches!(x, Response::Ok(_)))
    }
    pub fn close(&mut self) {
        self.drop_links();
        let _ = self.auto_rt(Request::Close);
        if let Some(l) = self.auto.take() {
            self.hang_up(l);
        }
    }
    pub fn with_db<T>(&self, f: impl FnOnce(Option<&Database>) -> T) -> T {
        self.server.with_db(f)
    }
}
