//! E1: whole-database history simulator. One driver thread issues every call, so the
//! order of statements across sessions is the simulator's; each step is compared with
//! the reference model.
use crate::eng::{Cfg, Eng, ErrClass, Out};
use crate::model::{Expect, Model, Tx, agrees, show_expect};
use crate::stmt::{Event, Probe, Stmt, Val};
use crate::util;
use serde::{Deserialize, Serialize};
use std::collections::BTreeMap;

#[derive(Clone, Debug, Serialize, Deserialize, PartialEq)]
pub struct Violation {
    /// which oracle fired: O-res, O-state, O-commit, O-live, O-open, O-audit, ...
    pub oracle: String,
    pub event: usize,
    pub detail: String,
}

#[derive(Clone, Debug, Default, Serialize, Deserialize)]
pub struct RunStats {
    pub counters: BTreeMap<String, u64>,
    pub fingerprint: u64,
    pub trace: Vec<String>,
    pub hazards: Vec<String>,
}

impl RunStats {
    pub fn bump(&mut self, k: &str) {
        *self.counters.entry(k.to_string()).or_insert(0) += 1;
    }
    pub fn add(&mut self, k: &str, n: u64) {
        *self.counters.entry(k.to_string()).or_insert(0) += n;
    }
    fn log(&mut self, line: String) {
        util::fnv(&mut self.fingerprint, line.as_bytes());
        util::fnv(&mut self.fingerprint, b"\n");
        self.trace.push(line);
    }
}

pub struct Sim {
    pub eng: Eng,
    pub model: Model,
    pub txmap: BTreeMap<u32, Tx>,
    pub stats: RunStats,
    /// for each open session: the model commit sequence when it began (to count "read after later commit")
    began_at: BTreeMap<u32, u64>,
    commits_seen: u64,
    /// permit explicit out-of-memory errors (C12 with tiny caches)
    pub allow_oom: bool,
    /// reproducer of finding D26 only
    pub allow_d26: bool,
    /// set when the model could not predict a statement that the engine then executed: the run
    /// stops there (no verdict on anything later)
    pub halted: bool,
    /// sessions whose transaction was aborted by VACUUM (by design): their statements may fail
    /// or succeed, but nothing they write may ever become visible
    pub zombies: std::collections::BTreeSet<u32>,
    /// C11: audit page ownership of the whole file at quiescent points
    pub page_audit: bool,
    /// a VACUUM has run since the last page audit: no garbage relation may be left
    vacuumed_since_audit: bool,
}

fn outcome_line(o: &Out) -> String {
    match o {
        Out::Err(c, _) => format!("ERR {:?}", c),
        x => x.short(),
    }
}

impl Sim {
    pub fn new(dir: &std::path::Path, cfg: Cfg) -> Result<Sim, String> {
        Ok(Sim::new_with(Eng::create(dir, cfg)?))
    }

    fn new_with(eng: Eng) -> Sim {
        let mut stats = RunStats::default();
        stats.fingerprint = 0xcbf29ce484222325;
        (Sim { eng, model: Model::new(), txmap: BTreeMap::new(), stats, began_at: BTreeMap::new(), commits_seen: 0, allow_oom: false, allow_d26: false, halted: false, zombies: Default::default(), page_audit: false, vacuumed_since_audit: false })
    }

    pub fn new_served(dir: &std::path::Path, cfg: Cfg, scfg: crate::served::ServedCfg) -> Result<Sim, String> {
        let mut sim = Sim::new_with(Eng::create_served(dir, cfg, scfg)?);
        sim.stats.bump("served_runs");
        Ok(sim)
    }

    fn viol(&self, oracle: &str, i: usize, detail: String) -> Violation {
        Violation { oracle: oracle.into(), event: i, detail }
    }

    fn check_live(&mut self, i: usize) -> Result<(), Violation> {
        let p = util::take_panics();
        if !p.is_empty() {
            return Err(self.viol("O-live", i, format!("engine thread panicked: {}", p.join(" | "))));
        }
        if let Some(f) = self.eng.wire_fault() {
            return Err(self.viol("O-wire", i, f));
        }
        Ok(())
    }

    fn compare(&mut self, i: usize, exp: &Expect, out: &Out) -> Result<(), Violation> {
        if self.allow_oom {
            if let Out::Err(ErrClass::Oom, _) = out {
                self.stats.bump("oom_errors");
                return Ok(());
            }
        }
        agrees(exp, out).map_err(|m| self.viol("O-res", i, m))
    }

    /// Execute one event against engine and model. `Err` = a property violation.
    pub fn step(&mut self, i: usize, ev: &Event) -> Result<(), Violation> {
        let r = self.step_inner(i, ev);
        if r.is_ok() {
            self.check_live(i)?;
        } else {
            if let Some(f) = self.eng.wire_fault() {
                // whatever the SQL-level oracle said, the cause is below it
                let _ = util::take_panics();
                return Err(self.viol("O-wire", i, f));
            }
            // attach panic info if any
            let p = util::take_panics();
            if !p.is_empty() {
                let mut v = r.unwrap_err();
                v.detail = format!("{} [engine panics: {}]", v.detail, p.join(" | "));
                return Err(v);
            }
        }
        r
    }

    fn step_inner(&mut self, i: usize, ev: &Event) -> Result<(), Violation> {
        match ev {
            Event::Auto(stmt) => {
                let tx = self.model.begin();
                let exp = self.model.run(tx, stmt, false);
                let out = self.eng.exec(&stmt.sql());
                self.stats.log(format!("{i} {} => {}", ev.short(), outcome_line(&out)));
                self.stats.bump(if stmt.is_read() { "auto_reads" } else { "auto_writes" });
                if stmt.is_ddl() {
                    self.stats.bump("ddl_autocommit");
                }
                let res = self.compare(i, &exp, &out);
                if exp == Expect::Any && !out.is_err() && !(matches!(stmt, Stmt::Raw(_)) && matches!(out, Out::Rows(_))) {
                    // the model could not predict it and the engine changed something (or may have)
                    self.halted = true;
                }
                if matches!(stmt, Stmt::Raw(_)) {
                    self.stats.bump(if out.is_err() { "hostile_statements_rejected" } else { "hostile_statements_accepted" });
                }
                if !out.is_err() && res.is_ok() {
                    self.model.run(tx, stmt, true);
                    self.model.commit(tx);
                    if !stmt.is_read() {
                        self.commits_seen += 1;
                    }
                } else {
                    self.model.abort(tx);
                    if out.is_err() {
                        self.stats.bump("failed_statements");
                    }
                }
                res
            }
            Event::Batch(stmts) => {
                let mut m2 = self.model.clone();
                let tx = m2.begin();
                let mut exps = vec![];
                let mut fails = false;
                for s in stmts {
                    let e = m2.run(tx, s, false);
                    if e == Expect::Any {
                        // unpredictable: execute it, then stop judging this run
                        let sqls: Vec<String> = stmts.iter().map(|s| s.sql()).collect();
                        let _ = self.eng.batch(&sqls);
                        self.halted = true;
                        return Ok(());
                    }
                    if matches!(e, Expect::Fail(_)) {
                        fails = true;
                        break;
                    }
                    m2.run(tx, s, true);
                    exps.push(e);
                }
                let sqls: Vec<String> = stmts.iter().map(|s| s.sql()).collect();
                let out = self.eng.batch(&sqls);
                self.stats.bump("batches");
                match out {
                    Ok(outs) => {
                        self.stats.log(format!("{i} {} => OK[{}]", ev.short(), outs.len()));
                        if fails {
                            return Err(self.viol("O-res", i, "model expects the batch to be rejected, engine committed it".into()));
                        }
                        if outs.len() != exps.len() {
                            return Err(self.viol("O-res", i, format!("batch returned {} results for {} statements", outs.len(), exps.len())));
                        }
                        for (e, o) in exps.iter().zip(outs.iter()) {
                            self.compare(i, e, o)?;
                        }
                        m2.commit(tx);
                        self.model = m2;
                        self.commits_seen += 1;
                        Ok(())
                    }
                    Err(o) => {
                        self.stats.log(format!("{i} {} => {}", ev.short(), outcome_line(&o)));
                        self.stats.bump("failed_batches");
                        // the model is left untouched: a failed batch has no effects
                        let tx0 = self.model.begin();
                        self.model.abort(tx0);
                        if !fails {
                            if self.allow_oom && matches!(o, Out::Err(ErrClass::Oom, _)) {
                                self.stats.bump("oom_errors");
                                return Ok(());
                            }
                            return Err(self.viol("O-res", i, format!("model expects the batch to succeed, engine returned {}", o.short())));
                        }
                        if let Out::Err(ErrClass::Internal, m) = &o {
                            return Err(self.viol("O-res", i, format!("batch failed with an internal error: {m}")));
                        }
                        Ok(())
                    }
                }
            }
            Event::Begin(k) => {
                // (Finding D26 - a session begun before anything had committed had no upper bound on
                // its snapshot - was repaired; a session may begin at any time, also as the first event.)
                if self.commits_seen < 2 {
                    self.stats.bump("sessions_begun_before_two_commits");
                }
                let out = self.eng.begin(*k);
                self.stats.log(format!("{i} {} => {}", ev.short(), outcome_line(&out)));
                if out.is_err() {
                    return Err(self.viol("O-res", i, format!("opening a session failed: {}", out.short())));
                }
                let tx = self.model.begin();
                self.txmap.insert(*k, tx);
                self.began_at.insert(*k, self.commits_seen);
                self.stats.bump("sessions");
                if self.txmap.len() >= 2 {
                    self.stats.bump("overlapping_sessions");
                }
                Ok(())
            }
            Event::Exec(k, stmt) if self.zombies.contains(k) => {
                let out = self.eng.sexec(*k, &stmt.sql());
                self.stats.log(format!("{i} {} (transaction aborted by VACUUM) => {}", ev.short(), if out.is_err() { "ERR" } else { "ok" }));
                self.stats.bump("statements_in_vacuum_aborted_sessions");
                if let Out::Err(ErrClass::Internal, m) = &out {
                    return Err(self.viol("O-res", i, format!("statement in a session aborted by VACUUM failed internally: {m}")));
                }
                Ok(())
            }
            Event::Exec(k, stmt) => {
                let Some(&tx) = self.txmap.get(k) else { return Ok(()) };
                let exp = self.model.run(tx, stmt, false);
                let out = self.eng.sexec(*k, &stmt.sql());
                self.stats.log(format!("{i} {} => {}", ev.short(), outcome_line(&out)));
                if stmt.is_ddl() {
                    self.stats.bump("ddl_in_session");
                }
                if stmt.is_read() {
                    self.stats.bump("session_reads");
                    if self.commits_seen > *self.began_at.get(k).unwrap_or(&0) {
                        self.stats.bump("reads_after_later_commit");
                    }
                } else {
                    self.stats.bump("session_writes");
                }
                let res = self.compare(i, &exp, &out);
                if exp == Expect::Any && !out.is_err() && !(matches!(stmt, Stmt::Raw(_)) && matches!(out, Out::Rows(_))) {
                    // the model could not predict it and the engine changed something (or may have)
                    self.halted = true;
                }
                if matches!(stmt, Stmt::Raw(_)) {
                    self.stats.bump(if out.is_err() { "hostile_statements_rejected" } else { "hostile_statements_accepted" });
                }
                if !out.is_err() && res.is_ok() {
                    self.model.run(tx, stmt, true);
                } else if out.is_err() {
                    self.stats.bump("failed_statements");
                    self.stats.bump("failed_statements_in_session");
                }
                let lost_conflict = exp == Expect::Fail("write conflict") || (exp == Expect::Any && matches!(out, Out::Err(ErrClass::Conflict, _)));
                if lost_conflict && res.is_ok() {
                    // a transaction that lost a write-write conflict has to roll back (the statement may
                    // have marked some rows before it met the conflicting one): the client does so at once
                    self.stats.bump("write_conflicts_in_sessions");
                    self.txmap.remove(k);
                    self.began_at.remove(k);
                    let out = self.eng.abort(*k);
                    self.model.abort(tx);
                    if let Out::Err(ErrClass::Internal, m) = &out {
                        return Err(self.viol("O-res", i, format!("ROLLBACK after a write-write conflict failed internally: {m}")));
                    }
                }
                res
            }
            Event::Commit(k) if self.zombies.contains(k) => {
                self.zombies.remove(k);
                self.txmap.remove(k);
                self.began_at.remove(k);
                let out = self.eng.commit(*k);
                self.stats.log(format!("{i} {} (transaction aborted by VACUUM) => {}", ev.short(), if out.is_err() { "ERR" } else { "ok" }));
                self.stats.bump("commits_of_vacuum_aborted_sessions");
                if let Out::Err(ErrClass::Internal, m) = &out {
                    return Err(self.viol("O-commit", i, format!("commit of a session aborted by VACUUM failed internally: {m}")));
                }
                Ok(())
            }
            Event::Commit(k) => {
                let Some(tx) = self.txmap.remove(k) else { return Ok(()) };
                self.began_at.remove(k);
                let must_fail = self.model.commit_must_fail(tx);
                let may_fail = !self.model.txs[tx].conflicts.is_empty();
                let wrote = self.model.txs[tx].writes > 0;
                let out = self.eng.commit(*k);
                self.stats.log(format!("{i} {} => {}", ev.short(), outcome_line(&out)));
                match &out {
                    Out::Ok => {
                        if must_fail {
                            self.model.commit(tx);
                            return Err(self.viol("O-commit", i, "two concurrent transactions modified the same row and both committed".into()));
                        }
                        self.model.commit(tx);
                        if wrote {
                            self.commits_seen += 1;
                        }
                        self.stats.bump("commits");
                        Ok(())
                    }
                    Out::Err(c, m) => {
                        self.model.abort(tx);
                        self.stats.bump("failed_commits");
                        if must_fail || (may_fail && *c == ErrClass::Conflict) {
                            Ok(())
                        } else {
                            Err(self.viol("O-commit", i, format!("commit refused without a conflict: {m}")))
                        }
                    }
                    _ => Ok(()),
                }
            }
            Event::Abort(k) => {
                let Some(tx) = self.txmap.remove(k) else { return Ok(()) };
                self.began_at.remove(k);
                let was_zombie = self.zombies.remove(k);
                let out = self.eng.abort(*k);
                self.stats.log(format!("{i} {} => {}", ev.short(), outcome_line(&out)));
                self.model.abort(tx);
                self.stats.bump("rollbacks");
                if was_zombie {
                    // the transaction was already aborted by VACUUM: the answer is free, but not an internal failure
                    if let Out::Err(ErrClass::Internal, m) = &out {
                        return Err(self.viol("O-res", i, format!("ROLLBACK of a session aborted by VACUUM failed internally: {m}")));
                    }
                    return Ok(());
                }
                if out.is_err() {
                    return Err(self.viol("O-res", i, format!("ROLLBACK failed: {}", out.short())));
                }
                Ok(())
            }
            Event::DropSession(k) => {
                let Some(tx) = self.txmap.remove(k) else { return Ok(()) };
                self.began_at.remove(k);
                self.zombies.remove(k);
                self.eng.drop_session(*k);
                self.stats.log(format!("{i} {}", ev.short()));
                self.model.abort(tx);
                self.stats.bump("session_drops");
                Ok(())
            }
            Event::Vacuum => {
                // by design VACUUM aborts every open transaction; the session handles stay
                let ks: Vec<u32> = self.txmap.keys().copied().collect();
                for k in ks {
                    let tx = self.txmap[&k];
                    self.model.abort(tx);
                    self.zombies.insert(k);
                    self.stats.bump("sessions_open_across_vacuum");
                }
                let out = self.eng.vacuum();
                self.vacuumed_since_audit = true;
                self.stats.log(format!("{i} VACUUM => {}", if out.is_err() { outcome_line(&out) } else { "OK".into() }));
                self.stats.bump("vacuums");
                match out {
                    Out::Err(_, m) => Err(self.viol("O-res", i, format!("VACUUM failed: {m}"))),
                    Out::Count(n) => {
                        if n > 0 {
                            self.stats.bump("vacuums_that_freed_bytes");
                        }
                        Ok(())
                    }
                    _ => Ok(()),
                }
            }
            Event::Analyze => {
                let out = self.eng.analyze();
                self.stats.log(format!("{i} ANALYZE => {}", outcome_line(&out)));
                self.stats.bump("analyzes");
                if out.is_err() {
                    return Err(self.viol("O-res", i, format!("ANALYZE failed: {}", out.short())));
                }
                Ok(())
            }
            Event::Flush => {
                let out = self.eng.flush();
                self.stats.log(format!("{i} FLUSH => {}", outcome_line(&out)));
                self.stats.bump("checkpoints");
                if out.is_err() {
                    return Err(self.viol("O-res", i, format!("flush failed: {}", out.short())));
                }
                Ok(())
            }
            Event::Reopen(cfg) => {
                self.close_sessions();
                let out = self.eng.reopen(*cfg);
                self.stats.log(format!("{i} {} => {}", ev.short(), outcome_line(&out)));
                self.stats.bump("reopens");
                if out.is_err() {
                    return Err(self.viol("O-open", i, format!("open after clean close failed: {}", out.short())));
                }
                Ok(())
            }
            Event::Check => self.check_state(i),
            Event::Probe(pr) => self.probe(i, pr),
            Event::TxnBurst(n) => {
                for j in 0..*n {
                    let k = 1_000_000 + j;
                    if self.eng.begin(k).is_err() {
                        return Err(self.viol("O-res", i, format!("opening empty transaction #{j} failed")));
                    }
                    let out = if j % 3 == 2 { self.eng.commit(k) } else { self.eng.abort(k) };
                    if out.is_err() {
                        return Err(self.viol("O-res", i, format!("ending empty transaction #{j} failed: {}", out.short())));
                    }
                }
                self.stats.log(format!("{i} {} => ok", ev.short()));
                self.stats.add("empty_transactions", *n as u64);
                Ok(())
            }
        }
    }

    fn close_sessions(&mut self) {
        self.zombies.clear();
        let ks: Vec<u32> = self.txmap.keys().copied().collect();
        for k in ks {
            let tx = self.txmap.remove(&k).unwrap();
            self.began_at.remove(&k);
            self.eng.drop_session(k);
            self.model.abort(tx);
            self.stats.bump("session_drops");
        }
    }

    /// C11: every page of the file except page zero is a node of exactly one tree, a link of
    /// exactly one overflow chain referenced by one leaf cell, or a member of the free list.
    fn audit_pages(&mut self, i: usize) -> Result<(), Violation> {
        let d = self.eng.with_db(axmosdb::verif::facade::dbpages::dump);
        self.stats.bump("page_audits");
        if let Some(e) = &d.error {
            return Err(self.viol("O-pages", i, format!("page graph walk failed: {e}")));
        }
        let mut owner: BTreeMap<u64, String> = BTreeMap::new();
        let mut claim = |p: u64, who: String| -> Result<(), String> {
            if p == 0 || p >= d.total_pages {
                return Err(format!("{who} refers to page {p} outside the file (total_pages {})", d.total_pages));
            }
            if let Some(prev) = owner.insert(p, who.clone()) {
                return Err(format!("page {p} has two owners: {prev} and {who}"));
            }
            Ok(())
        };
        let mut res: Result<(), String> = Ok(());
        // relations whose creator aborted are garbage that VACUUM collects: their pages are accounted
        // for until then, and must be gone right after a VACUUM
        let dead = d.trees.iter().filter(|t| t.dead).count() as u64;
        if dead > 0 {
            self.stats.add("garbage_relations_seen_by_page_audits", dead);
            if self.vacuumed_since_audit {
                res = Err(format!("VACUUM left {} behind: its creator aborted, nobody can see it, and its pages are still allocated", d.trees.iter().find(|t| t.dead).map(|t| t.name.clone()).unwrap_or_default()));
            }
        }
        self.vacuumed_since_audit = false;
        'outer: for t in &d.trees {
            if res.is_err() {
                break;
            }
            for n in &t.nodes {
                if let Err(e) = claim(*n, format!("node of {}", t.name)) {
                    res = Err(e);
                    break 'outer;
                }
            }
            for (pg, ci, chain) in &t.leaf_chains {
                for o in chain {
                    if let Err(e) = claim(*o, format!("overflow chain of {} page {pg} cell {ci}", t.name)) {
                        res = Err(e);
                        break 'outer;
                    }
                }
            }
        }
        if res.is_ok() {
            for (n, f) in d.free_list.iter().enumerate() {
                if let Err(e) = claim(*f, format!("free list entry #{n}")) {
                    res = Err(e);
                    break;
                }
            }
        }
        if res.is_ok() {
            if d.free_list.first().copied() != d.free_head || d.free_list.last().copied() != d.free_tail {
                res = Err(format!("free list recorded head/tail {:?}/{:?} but the list runs {:?}..{:?}", d.free_head, d.free_tail, d.free_list.first(), d.free_list.last()));
            }
        }
        if res.is_ok() {
            for p in 1..d.total_pages {
                if !owner.contains_key(&p) {
                    res = Err(format!("page {p} of {} has no owner: not in any tree, not in an overflow chain, not on the free list (leaked)", d.total_pages));
                    break;
                }
            }
        }
        self.stats.add("pages_audited", d.total_pages);
        if !d.free_list.is_empty() {
            self.stats.bump("audits_with_nonempty_free_list");
        }
        res.map_err(|e| self.viol("O-pages", i, e))
    }

    /// C06: one logical query in several spellings that force different plans.
    fn probe(&mut self, i: usize, pr: &Probe) -> Result<(), Violation> {
        let tx = self.model.begin();
        let col_of = |m: &Model, t: &str, c: &str| -> Option<(usize, usize)> {
            let ti = m.find_table(tx, t)?;
            let ci = m.tables[ti].col(c)?;
            Some((ti, ci))
        };
        let (variants, want): (Vec<String>, Vec<Vec<String>>) = match pr {
            Probe::Point { table, col, v } => {
                let Some((ti, ci)) = col_of(&self.model, table, col) else {
                    self.model.abort(tx);
                    return Ok(());
                };
                let mut want: Vec<Vec<String>> = self.model.visible_rows(tx, ti).into_iter().filter(|(_, r)| r[ci] == Val::I(*v)).map(|(_, r)| r.iter().map(|x| x.render()).collect()).collect();
                want.sort();
                (
                    vec![
                        format!("SELECT * FROM {table} WHERE {col} = {v}"),
                        format!("SELECT * FROM {table} WHERE {v} = {col}"),
                        format!("SELECT * FROM {table} WHERE {col} + 0 = {v}"),
                        format!("SELECT * FROM {table} WHERE {col} >= {v} AND {col} <= {v}"),
                        format!("SELECT * FROM {table} WHERE {v} <= {col} AND {v} >= {col}"),
                    ],
                    want,
                )
            }
            Probe::Range { table, col, lo, hi } => {
                let Some((ti, ci)) = col_of(&self.model, table, col) else {
                    self.model.abort(tx);
                    return Ok(());
                };
                let mut want: Vec<Vec<String>> = self
                    .model
                    .visible_rows(tx, ti)
                    .into_iter()
                    .filter(|(_, r)| matches!(&r[ci], Val::I(x) if x >= lo && x <= hi))
                    .map(|(_, r)| r.iter().map(|x| x.render()).collect())
                    .collect();
                want.sort();
                (
                    vec![
                        format!("SELECT * FROM {table} WHERE {col} >= {lo} AND {col} <= {hi}"),
                        format!("SELECT * FROM {table} WHERE {lo} <= {col} AND {hi} >= {col}"),
                        format!("SELECT * FROM {table} WHERE {col} + 0 >= {lo} AND {col} + 0 <= {hi}"),
                        format!("SELECT * FROM {table} WHERE {col} > {} AND {col} < {}", lo - 1, hi + 1),
                        format!("SELECT * FROM {table} WHERE {} < {col} AND {} > {col}", lo - 1, hi + 1),
                        format!("SELECT * FROM {table} WHERE {col} BETWEEN {lo} AND {hi}"),
                    ],
                    want,
                )
            }
            Probe::Join { left, right, lcol, rcol } => {
                let (Some((li, lc)), Some((ri, rc))) = (col_of(&self.model, left, lcol), col_of(&self.model, right, rcol)) else {
                    self.model.abort(tx);
                    return Ok(());
                };
                let lid = self.model.tables[li].col("id").unwrap_or(0);
                let rid = self.model.tables[ri].col("id").unwrap_or(0);
                let lrows = self.model.visible_rows(tx, li);
                let rrows = self.model.visible_rows(tx, ri);
                let mut want = vec![];
                for (_, l) in &lrows {
                    for (_, r) in &rrows {
                        if !l[lc].is_null() && l[lc] == r[rc] {
                            want.push(vec![l[lid].render(), r[rid].render()]);
                        }
                    }
                }
                want.sort();
                (
                    vec![
                        format!("SELECT {left}.id, {right}.id FROM {left} JOIN {right} ON {left}.{lcol} = {right}.{rcol}"),
                        format!("SELECT {left}.id, {right}.id FROM {left} JOIN {right} ON {left}.{lcol} + 0 = {right}.{rcol}"),
                        format!("SELECT {left}.id, {right}.id FROM {left} JOIN {right} ON {left}.{lcol} = {right}.{rcol} WHERE {left}.id = {left}.id"),
                    ],
                    want,
                )
            }
        };
        self.model.abort(tx);
        self.stats.bump("plan_families");
        let mut plans = std::collections::BTreeSet::new();
        for (n, sql) in variants.iter().enumerate() {
            let out = self.eng.exec(sql);
            self.stats.log(format!("{i} probe#{n} {sql} => {}", outcome_line(&out)));
            if let Ok(plan) = self.eng.explain(sql) {
                let ops: Vec<&str> = ["IndexScan", "SeqScan", "MergeJoin", "NestedLoop", "HashJoin", "Filter", "Sort"].into_iter().filter(|o| plan.contains(o)).collect();
                plans.insert(ops.join("+"));
            }
            match &out {
                Out::Rows(got) if *got == want => {}
                o => {
                    return Err(self.viol(
                        "O-plan",
                        i,
                        format!("variant #{n} `{sql}` returned {}, the reference answer (and variant #0's specification) is {}", o.short(), Out::Rows(want.clone()).short()),
                    ));
                }
            }
        }
        if plans.len() > 1 {
            self.stats.bump("plan_families_with_different_physical_plans");
        }
        Ok(())
    }

    /// O-state: every table, read by a fresh transaction, equals the model's committed state.
    pub fn check_state(&mut self, i: usize) -> Result<(), Violation> {
        let want = self.model.committed_state();
        self.stats.bump("state_checks");
        for (name, rows) in &want {
            let out = self.eng.exec(&format!("SELECT * FROM {name}"));
            match &out {
                Out::Rows(got) => {
                    if got != rows {
                        self.stats.log(format!("{i} CHECK {name} => MISMATCH"));
                        return Err(self.viol(
                            "O-state",
                            i,
                            format!("table {name}: model has {}, engine has {}", Out::Rows(rows.clone()).short(), out.short()),
                        ));
                    }
                }
                o => {
                    if self.allow_oom && matches!(o, Out::Err(ErrClass::Oom, _)) {
                        self.stats.bump("oom_errors");
                        continue;
                    }
                    self.stats.log(format!("{i} CHECK {name} => {}", outcome_line(o)));
                    return Err(self.viol("O-state", i, format!("table {name} unreadable: {}", o.short())));
                }
            }
        }
        let d = self.model.digest();
        self.stats.log(format!("{i} CHECK ok digest={d:016x}"));
        if self.page_audit && self.txmap.is_empty() {
            self.audit_pages(i)?;
        }
        Ok(())
    }

    /// Run a whole history. Returns the first violation, if any.
    pub fn run(&mut self, events: &[Event]) -> Option<Violation> {
        for (i, ev) in events.iter().enumerate() {
            if let Err(v) = self.step(i, ev) {
                return Some(v);
            }
            if self.halted {
                self.stats.bump("runs_halted_unpredictable");
                break;
            }
        }
        None
    }

    pub fn finish(mut self) -> RunStats {
        let (_, misses, ev) = self.eng.cache_stats();
        self.stats.add("cache_evictions", ev);
        self.stats.add("cache_misses", misses);
        self.close_sessions();
        self.eng.close();
        for (k, v) in self.eng.served_stats() {
            self.stats.add(&format!("served_{k}"), v);
        }
        let _ = util::take_panics();
        self.stats.hazards = std::mem::take(&mut self.model.hazards);
        self.stats
    }

    pub fn expect_str(e: &Expect) -> String {
        show_expect(e)
    }
}

pub fn is_write(s: &Stmt) -> bool {
    !s.is_read()
}
