//! Structured statements: rendered to SQL for the engine, interpreted directly by the model.
use serde::{Deserialize, Serialize};

#[derive(Clone, Copy, Debug, PartialEq, Eq, Serialize, Deserialize)]
pub enum Ty {
    Int,
    BigInt,
    Text,
}

impl Ty {
    pub fn sql(&self) -> &'static str {
        match self {
            Ty::Int => "INT",
            Ty::BigInt => "BIGINT",
            Ty::Text => "TEXT",
        }
    }
}

#[derive(Clone, Debug, PartialEq, Eq, PartialOrd, Ord, Hash, Serialize, Deserialize)]
pub enum Val {
    Null,
    I(i64),
    T(String),
}

impl Val {
    pub fn sql(&self) -> String {
        match self {
            Val::Null => "NULL".into(),
            Val::I(i) => i.to_string(),
            Val::T(s) => format!("'{}'", s.replace('\'', "''")),
        }
    }
    /// How the engine renders the value in a result row.
    pub fn render(&self) -> String {
        match self {
            Val::Null => "NULL".into(),
            Val::I(i) => i.to_string(),
            Val::T(s) => s.clone(),
        }
    }
    pub fn is_null(&self) -> bool {
        matches!(self, Val::Null)
    }
}

#[derive(Clone, Debug, PartialEq, Eq, Serialize, Deserialize)]
pub struct ColDef {
    pub name: String,
    pub ty: Ty,
    pub not_null: bool,
    pub default: Option<Val>,
}

#[derive(Clone, Copy, Debug, PartialEq, Eq, Serialize, Deserialize)]
pub enum Op {
    Eq,
    Ne,
    Lt,
    Le,
    Gt,
    Ge,
}

impl Op {
    pub fn sql(&self) -> &'static str {
        match self {
            Op::Eq => "=",
            Op::Ne => "<>",
            Op::Lt => "<",
            Op::Le => "<=",
            Op::Gt => ">",
            Op::Ge => ">=",
        }
    }
}

#[derive(Clone, Debug, PartialEq, Eq, Serialize, Deserialize)]
pub enum Pred {
    Cmp(String, Op, Val),
    IsNull(String),
    NotNull(String),
    And(Box<Pred>, Box<Pred>),
    Or(Box<Pred>, Box<Pred>),
}

impl Pred {
    pub fn sql(&self) -> String {
        match self {
            Pred::Cmp(c, o, v) => format!("{c} {} {}", o.sql(), v.sql()),
            Pred::IsNull(c) => format!("{c} IS NULL"),
            Pred::NotNull(c) => format!("{c} IS NOT NULL"),
            Pred::And(a, b) => format!("({} AND {})", a.sql(), b.sql()),
            Pred::Or(a, b) => format!("({} OR {})", a.sql(), b.sql()),
        }
    }
    pub fn columns(&self, out: &mut Vec<String>) {
        match self {
            Pred::Cmp(c, _, _) | Pred::IsNull(c) | Pred::NotNull(c) => out.push(c.clone()),
            Pred::And(a, b) | Pred::Or(a, b) => {
                a.columns(out);
                b.columns(out);
            }
        }
    }
}

#[derive(Clone, Debug, PartialEq, Eq, Serialize, Deserialize)]
pub enum Expr {
    Lit(Val),
    /// column + constant
    ColPlus(String, i64),
}

impl Expr {
    pub fn sql(&self) -> String {
        match self {
            Expr::Lit(v) => v.sql(),
            Expr::ColPlus(c, k) => format!("{c} + {k}"),
        }
    }
}

#[derive(Clone, Debug, PartialEq, Eq, Serialize, Deserialize)]
pub enum AlterAction {
    AddColumn(ColDef),
    DropColumn(String),
    AddUnique(String, Vec<String>),
    SetNotNull(String),
    DropNotNull(String),
}

#[derive(Clone, Debug, PartialEq, Eq, Serialize, Deserialize)]
pub enum Stmt {
    CreateTable { name: String, cols: Vec<ColDef>, pk: Option<Vec<String>>, uniques: Vec<Vec<String>> },
    CreateIndex { name: String, table: String, cols: Vec<String> },
    DropTable {
        name: String,
        #[serde(default)]
        cascade: bool,
    },
    Alter { table: String, action: AlterAction },
    Insert { table: String, rows: Vec<Vec<Val>> },
    Update { table: String, set: Vec<(String, Expr)>, pred: Option<Pred> },
    Delete { table: String, pred: Option<Pred> },
    /// cols empty = `*`
    Select { table: String, cols: Vec<String>, pred: Option<Pred> },
    Count { table: String, pred: Option<Pred> },
    /// free text; the model does not predict rows for it
    Raw(String),
}

fn coldef_sql(c: &ColDef) -> String {
    let mut s = format!("{} {}", c.name, c.ty.sql());
    if c.not_null {
        s.push_str(" NOT NULL");
    }
    if let Some(d) = &c.default {
        s.push_str(&format!(" DEFAULT {}", d.sql()));
    }
    s
}

impl Stmt {
    pub fn sql(&self) -> String {
        match self {
            Stmt::CreateTable { name, cols, pk, uniques } => {
                let mut parts: Vec<String> = cols.iter().map(coldef_sql).collect();
                if let Some(pk) = pk {
                    parts.push(format!("PRIMARY KEY ({})", pk.join(", ")));
                }
                for u in uniques {
                    parts.push(format!("UNIQUE ({})", u.join(", ")));
                }
                format!("CREATE TABLE {name} ({})", parts.join(", "))
            }
            Stmt::CreateIndex { name, table, cols } => {
                format!("CREATE UNIQUE INDEX {name} ON {table} ({})", cols.join(", "))
            }
            Stmt::DropTable { name, cascade } => format!("DROP TABLE {name}{}", if *cascade { " CASCADE" } else { "" }),
            Stmt::Alter { table, action } => match action {
                AlterAction::AddColumn(c) => format!("ALTER TABLE {table} ADD COLUMN {}", coldef_sql(c)),
                AlterAction::DropColumn(c) => format!("ALTER TABLE {table} DROP COLUMN {c}"),
                AlterAction::AddUnique(n, cols) => {
                    format!("ALTER TABLE {table} ADD CONSTRAINT {n} UNIQUE ({})", cols.join(", "))
                }
                AlterAction::SetNotNull(c) => format!("ALTER TABLE {table} ALTER COLUMN {c} SET NOT NULL"),
                AlterAction::DropNotNull(c) => format!("ALTER TABLE {table} ALTER COLUMN {c} DROP NOT NULL"),
            },
            Stmt::Insert { table, rows } => {
                let rs: Vec<String> = rows
                    .iter()
                    .map(|r| format!("({})", r.iter().map(|v| v.sql()).collect::<Vec<_>>().join(", ")))
                    .collect();
                format!("INSERT INTO {table} VALUES {}", rs.join(", "))
            }
            Stmt::Update { table, set, pred } => {
                let sets: Vec<String> = set.iter().map(|(c, e)| format!("{c} = {}", e.sql())).collect();
                let w = pred.as_ref().map(|p| format!(" WHERE {}", p.sql())).unwrap_or_default();
                format!("UPDATE {table} SET {}{w}", sets.join(", "))
            }
            Stmt::Delete { table, pred } => {
                let w = pred.as_ref().map(|p| format!(" WHERE {}", p.sql())).unwrap_or_default();
                format!("DELETE FROM {table}{w}")
            }
            Stmt::Select { table, cols, pred } => {
                let c = if cols.is_empty() { "*".to_string() } else { cols.join(", ") };
                let w = pred.as_ref().map(|p| format!(" WHERE {}", p.sql())).unwrap_or_default();
                format!("SELECT {c} FROM {table}{w}")
            }
            Stmt::Count { table, pred } => {
                let w = pred.as_ref().map(|p| format!(" WHERE {}", p.sql())).unwrap_or_default();
                format!("SELECT COUNT(*) FROM {table}{w}")
            }
            Stmt::Raw(s) => s.clone(),
        }
    }
    pub fn is_read(&self) -> bool {
        matches!(self, Stmt::Select { .. } | Stmt::Count { .. })
    }
    pub fn is_ddl(&self) -> bool {
        matches!(self, Stmt::CreateTable { .. } | Stmt::CreateIndex { .. } | Stmt::DropTable { .. } | Stmt::Alter { .. })
    }
    pub fn table(&self) -> Option<&str> {
        match self {
            Stmt::CreateTable { name, .. } | Stmt::DropTable { name, .. } => Some(name),
            Stmt::CreateIndex { table, .. }
            | Stmt::Alter { table, .. }
            | Stmt::Insert { table, .. }
            | Stmt::Update { table, .. }
            | Stmt::Delete { table, .. }
            | Stmt::Select { table, .. }
            | Stmt::Count { table, .. } => Some(table),
            Stmt::Raw(_) => None,
        }
    }
}

/// One step of a simulated history.
#[derive(Clone, Debug, PartialEq, Eq, Serialize, Deserialize)]
pub enum Event {
    /// autocommit statement
    Auto(Stmt),
    /// all statements in one transaction (`execute_batch`)
    Batch(Vec<Stmt>),
    Begin(u32),
    Exec(u32, Stmt),
    Commit(u32),
    Abort(u32),
    /// drop the session handle without commit
    DropSession(u32),
    Vacuum,
    Analyze,
    /// `Database::flush` (checkpoint)
    Flush,
    /// clean close + open with this configuration
    Reopen(crate::eng::Cfg),
    /// quiescent-point audit: compare every table with the model
    Check,
    /// plan-variant family of one logical query, issued from a fresh autocommit transaction: every
    /// variant must return the same multiset, equal to the model's
    Probe(Probe),
    /// `n` empty transactions (session opened, then rolled back; every third one committed):
    /// moves the transaction-id counter without touching any table
    TxnBurst(u32),
}

#[derive(Clone, Debug, PartialEq, Eq, Serialize, Deserialize)]
pub enum Probe {
    /// `col = v` through an index, with the literal on the left, and wrapped so that no index applies
    Point { table: String, col: String, v: i64 },
    /// `lo <= col <= hi` in every spelling (literal left / right, BETWEEN, wrapped)
    Range { table: String, col: String, lo: i64, hi: i64 },
    /// equi-join of two tables in both FROM orders and with the key wrapped
    Join { left: String, right: String, lcol: String, rcol: String },
}

impl Event {
    pub fn short(&self) -> String {
        match self {
            Event::Auto(s) => format!("auto: {}", s.sql()),
            Event::Batch(v) => format!("batch: {}", v.iter().map(|s| s.sql()).collect::<Vec<_>>().join("; ")),
            Event::Begin(k) => format!("s{k}: BEGIN"),
            Event::Exec(k, s) => format!("s{k}: {}", s.sql()),
            Event::Commit(k) => format!("s{k}: COMMIT"),
            Event::Abort(k) => format!("s{k}: ROLLBACK"),
            Event::DropSession(k) => format!("s{k}: (session dropped)"),
            Event::Vacuum => "VACUUM".into(),
            Event::Analyze => "ANALYZE".into(),
            Event::Flush => "FLUSH".into(),
            Event::Reopen(c) => format!("REOPEN cache={} pool={}", c.cache, c.pool),
            Event::Check => "CHECK".into(),
            Event::TxnBurst(n) => format!("{n} empty transactions"),
            Event::Probe(p) => format!("plan-variant family {:?}", p),
        }
    }
}
