//! Supervisor: fans seeds out to worker processes, is the only writer of the check's
//! stdout, attributes dead or hung workers to the seed they were running, minimises
//! violations, classifies them against the known-findings file, writes evidence.
use crate::props::{self, Engine, PropInfo};
use crate::run::RunResult;
use crate::sqlsim::Violation;
use serde::{Deserialize, Serialize};
use serde_json::{Value, json};
use std::collections::{BTreeMap, BTreeSet};
use std::io::{BufRead, BufReader};
use std::path::{Path, PathBuf};
use std::process::{Command, Stdio};
use std::sync::mpsc;
use std::time::{Duration, Instant};

pub const VERIF_ROOT_DEFAULT: &str = "/verif";

/// Where known_findings.json, findings/, evidence/ and replays/ live. The registered checks
/// use /verif; background sweeps point AXSIM_ROOT at their own snapshot.
pub fn verif_root() -> String {
    std::env::var("AXSIM_ROOT").unwrap_or_else(|_| VERIF_ROOT_DEFAULT.to_string())
}

#[derive(Clone, Debug, Serialize, Deserialize)]
pub struct Finding {
    pub id: String,
    pub property: String,
    pub status: String, // open | fixed
    #[serde(default)]
    pub commit: Option<String>,
    pub what_fails: String,
    /// oracle the reproducer trips
    pub oracle: String,
    /// trigger predicate name (classifier), if any
    #[serde(default)]
    pub trigger: Option<String>,
    /// reproducer replay file, relative to /verif
    #[serde(default)]
    pub replay: Option<String>,
}

pub fn load_findings() -> Vec<Finding> {
    let p = Path::new(&verif_root()).join("known_findings.json");
    match std::fs::read_to_string(&p) {
        Ok(s) => {
            let v: Value = serde_json::from_str(&s).expect("known_findings.json parses");
            serde_json::from_value(v["findings"].clone()).expect("findings list")
        }
        Err(_) => vec![],
    }
}

fn self_exe() -> PathBuf {
    std::env::current_exe().expect("current exe")
}

#[derive(Debug)]
pub enum WorkerEvent {
    Start(u64),
    Done(Box<RunResult>),
    Exit(Option<i32>, Option<i32>), // code, signal
}

/// Outcome of running one replay file in a fresh process.
#[derive(Clone, Debug)]
pub enum ReplayOutcome {
    Clean,
    Violation(Violation),
    Died(String),
    Hung,
}

impl ReplayOutcome {
    pub fn class(&self) -> String {
        match self {
            ReplayOutcome::Clean => "clean".into(),
            ReplayOutcome::Violation(v) => v.oracle.clone(),
            ReplayOutcome::Died(_) => "O-live:process-died".into(),
            ReplayOutcome::Hung => "O-live:hang".into(),
        }
    }
}

pub fn run_replay_file(path: &Path, timeout: Duration) -> ReplayOutcome {
    let mut child = Command::new(self_exe())
        .arg("replay-raw")
        .arg(path)
        .stdin(Stdio::null())
        .stdout(Stdio::piped())
        .stderr(Stdio::null())
        .spawn()
        .expect("spawn replay");
    let stdout = child.stdout.take().unwrap();
    let (tx, rx) = mpsc::channel();
    std::thread::spawn(move || {
        let mut out = String::new();
        for l in BufReader::new(stdout).lines().map_while(Result::ok) {
            out.push_str(&l);
            out.push('\n');
        }
        let _ = tx.send(out);
    });
    let t0 = Instant::now();
    loop {
        match child.try_wait() {
            Ok(Some(status)) => {
                let out = rx.recv_timeout(Duration::from_secs(2)).unwrap_or_default();
                for l in out.lines() {
                    if let Some(j) = l.strip_prefix("DONE ") {
                        if let Ok(r) = serde_json::from_str::<RunResult>(j) {
                            return match r.violation {
                                Some(v) => ReplayOutcome::Violation(v),
                                None => ReplayOutcome::Clean,
                            };
                        }
                    }
                }
                use std::os::unix::process::ExitStatusExt;
                return ReplayOutcome::Died(format!("exit code {:?} signal {:?}", status.code(), status.signal()));
            }
            Ok(None) => {
                if t0.elapsed() > timeout {
                    let _ = child.kill();
                    let _ = child.wait();
                    return ReplayOutcome::Hung;
                }
                std::thread::sleep(Duration::from_millis(5));
            }
            Err(_) => return ReplayOutcome::Died("wait failed".into()),
        }
    }
}

pub struct Batch {
    pub results: Vec<RunResult>,
    /// (idx, what) for runs whose worker died or hung
    pub dead: Vec<(u64, String)>,
    pub harness_errors: Vec<String>,
}

/// Run indices [0, n) of `prop` across `workers` processes.
pub fn fan_out(info: &PropInfo, verif_seed: u64, lo: u64, hi: u64, workers: usize, deadline: Option<Instant>) -> Batch {
    let n = hi - lo;
    let workers = workers.max(1).min(n.max(1) as usize);
    let chunk = n.div_ceil(workers as u64).max(1);
    let (tx, rx) = mpsc::channel::<(usize, WorkerEvent)>();
    let mut children = vec![];
    let mut w = 0usize;
    let mut a = lo;
    while a < hi {
        let b = (a + chunk).min(hi);
        let mut child = Command::new(self_exe())
            .arg("worker")
            .arg(info.id)
            .arg(verif_seed.to_string())
            .arg(a.to_string())
            .arg(b.to_string())
            .stdin(Stdio::null())
            .stdout(Stdio::piped())
            .stderr(Stdio::null())
            .spawn()
            .expect("spawn worker");
        let stdout = child.stdout.take().unwrap();
        let txc = tx.clone();
        let wid = w;
        std::thread::spawn(move || {
            for l in BufReader::new(stdout).lines().map_while(Result::ok) {
                if let Some(s) = l.strip_prefix("START ") {
                    if let Ok(i) = s.trim().parse::<u64>() {
                        let _ = txc.send((wid, WorkerEvent::Start(i)));
                    }
                } else if let Some(j) = l.strip_prefix("DONE ") {
                    if let Ok(r) = serde_json::from_str::<RunResult>(j) {
                        let _ = txc.send((wid, WorkerEvent::Done(Box::new(r))));
                    }
                }
            }
            let _ = txc.send((wid, WorkerEvent::Exit(None, None)));
        });
        children.push((child, a, b, None::<u64>, Instant::now(), false)); // (child, lo, hi, current idx, last progress, finished)
        a = b;
        w += 1;
    }
    drop(tx);
    let mut batch = Batch { results: vec![], dead: vec![], harness_errors: vec![] };
    let mut live = children.len();
    let watchdog = Duration::from_secs(std::env::var("AXSIM_WATCHDOG_S").ok().and_then(|v| v.parse().ok()).unwrap_or(info.watchdog_s)); // (override: harness self-test only)
    // ranges to resume after a worker died mid-range
    let mut resume: Vec<(u64, u64)> = vec![];
    while live > 0 {
        match rx.recv_timeout(Duration::from_millis(200)) {
            Ok((wid, ev)) => {
                let c = &mut children[wid];
                c.4 = Instant::now();
                match ev {
                    WorkerEvent::Start(i) => c.3 = Some(i),
                    WorkerEvent::Done(r) => {
                        c.3 = None;
                        c.1 = r.idx + 1;
                        batch.results.push(*r);
                    }
                    WorkerEvent::Exit(..) => {
                        if !c.5 {
                            c.5 = true;
                            live -= 1;
                            let status = c.0.wait().ok();
                            if let Some(i) = c.3.take() {
                                use std::os::unix::process::ExitStatusExt;
                                let what = status.map(|s| format!("worker process died (exit code {:?}, signal {:?})", s.code(), s.signal())).unwrap_or_default();
                                batch.dead.push((i, what));
                                if i + 1 < c.2 {
                                    resume.push((i + 1, c.2));
                                }
                            } else if c.1 < c.2 {
                                let ok = status.map(|s| s.success()).unwrap_or(false);
                                if !ok {
                                    batch.harness_errors.push(format!("worker for [{}, {}) exited early at {}", c.1, c.2, c.1));
                                }
                            }
                        }
                    }
                }
            }
            Err(mpsc::RecvTimeoutError::Timeout) => {}
            Err(mpsc::RecvTimeoutError::Disconnected) => break,
        }
        // watchdog
        for c in children.iter_mut() {
            if !c.5 && c.3.is_some() && c.4.elapsed() > watchdog {
                let _ = c.0.kill();
                let _ = c.0.wait();
                c.5 = true;
                live -= 1;
                let i = c.3.take().unwrap();
                batch.dead.push((i, format!("no progress for {} s (hang)", info.watchdog_s)));
                if i + 1 < c.2 {
                    resume.push((i + 1, c.2));
                }
            }
        }
        if let Some(d) = deadline {
            if Instant::now() > d {
                for c in children.iter_mut() {
                    if !c.5 {
                        let _ = c.0.kill();
                        let _ = c.0.wait();
                        c.5 = true;
                    }
                }
                break;
            }
        }
    }
    for (a, b) in resume {
        if deadline.map(|d| Instant::now() > d).unwrap_or(false) {
            break;
        }
        // when workers keep dying or hanging there is nothing to gain from finishing their ranges
        if batch.dead.len() >= 6 {
            break;
        }
        let more = fan_out(info, verif_seed, a, b, 1, deadline);
        batch.results.extend(more.results);
        batch.dead.extend(more.dead);
        batch.harness_errors.extend(more.harness_errors);
    }
    batch.results.sort_by_key(|r| r.idx);
    batch
}

/// Delta-debug the event list of a replay (JSON with an "events" array) while the same
/// violation class persists. Every candidate runs in a fresh process.
pub fn minimise(replay: &Value, class: &str, scratch: &Path, budget: Duration) -> Value {
    let t0 = Instant::now();
    let mut best = replay.clone();
    if replay.get("engine").and_then(|e| e.as_str()).map(|e| e.starts_with("E4")).unwrap_or(false) {
        return best; // the recorded choice list is the schedule; it is replayed exactly, not shrunk
    }
    let Some(events) = replay.get("events").and_then(|e| e.as_array()).cloned() else { return best };
    let mut cur = events;
    // Minimisation must not slip into a different, already known defect: histories keep the
    // warm-up (two committed writes before the first session begins; finding D26).
    fn warm(evs: &[Value]) -> bool {
        let mut writes = 0;
        for e in evs {
            if e.get("Begin").is_some() {
                return writes >= 2;
            }
            let t = e.to_string();
            if (e.get("Auto").is_some() || e.get("Batch").is_some()) && (t.contains("\"CreateTable\"") || t.contains("\"Insert\"")) {
                writes += 1;
            }
        }
        true
    }
    // (finding D26 was repaired: the minimiser may remove the warm-up like anything else)
    let need_warm = false && warm(&cur);
    let guards: Vec<String> = replay.get("guards").and_then(|g| serde_json::from_value(g.clone()).ok()).unwrap_or_default();
    let is_sql = replay.get("engine").and_then(|e| e.as_str()).map(|e| e.starts_with("E1") || e.starts_with("E2")).unwrap_or(false);
    let trips_guard = |evs: &Vec<Value>| -> bool {
        if !is_sql || guards.is_empty() {
            return false;
        }
        match serde_json::from_value::<Vec<crate::stmt::Event>>(Value::Array(evs.clone())) {
            Ok(es) => crate::guards::first_violation(&es, &guards).is_some(),
            Err(_) => true,
        }
    };
    // only enforce guard preservation if the original respects its guards (reproducers of findings do not)
    let enforce_guards = !trips_guard(&cur);
    let try_case = |evs: &Vec<Value>, base: &Value| -> bool {
        if need_warm && !warm(evs) {
            return false;
        }
        if enforce_guards && trips_guard(evs) {
            return false;
        }
        let mut c = base.clone();
        c["events"] = Value::Array(evs.clone());
        let p = scratch.join("cand.json");
        std::fs::write(&p, serde_json::to_vec(&c).unwrap()).unwrap();
        run_replay_file(&p, Duration::from_secs(15)).class() == class
    };
    let mut n = 2usize;
    while cur.len() >= 2 && t0.elapsed() < budget {
        let chunk = cur.len().div_ceil(n);
        let mut reduced = false;
        let mut i = 0;
        while i < cur.len() {
            let mut cand = cur.clone();
            let end = (i + chunk).min(cand.len());
            cand.drain(i..end);
            if !cand.is_empty() && try_case(&cand, &best) {
                cur = cand;
                n = n.saturating_sub(1).max(2);
                reduced = true;
                break;
            }
            i += chunk;
            if t0.elapsed() > budget {
                break;
            }
        }
        if !reduced {
            if chunk <= 1 {
                break;
            }
            n = (n * 2).min(cur.len());
        }
    }
    // second pass: shrink inside events (statements of a batch, rows of a multi-row insert)
    let mut changed = true;
    while changed && t0.elapsed() < budget {
        changed = false;
        'outer: for i in 0..cur.len() {
            // batch statements
            if let Some(stmts) = cur[i].get("Batch").and_then(|b| b.as_array()).cloned() {
                if stmts.len() > 1 {
                    for j in 0..stmts.len() {
                        let mut s2 = stmts.clone();
                        s2.remove(j);
                        let mut cand = cur.clone();
                        cand[i] = if s2.len() == 1 { json!({"Auto": s2[0]}) } else { json!({"Batch": s2}) };
                        if try_case(&cand, &best) {
                            cur = cand;
                            changed = true;
                            break 'outer;
                        }
                    }
                }
            }
            // rows of inserts: look for {"Insert":{"rows":[...]}} anywhere inside the event
            let text = cur[i].to_string();
            if text.contains("\"Insert\"") {
                let mut paths: Vec<Vec<String>> = vec![];
                fn walk(v: &Value, path: &mut Vec<String>, out: &mut Vec<Vec<String>>) {
                    match v {
                        Value::Object(m) => {
                            for (k, x) in m {
                                path.push(k.clone());
                                if k == "rows" && x.as_array().map(|a| a.len() > 1).unwrap_or(false) {
                                    out.push(path.clone());
                                }
                                walk(x, path, out);
                                path.pop();
                            }
                        }
                        Value::Array(a) => {
                            for (k, x) in a.iter().enumerate() {
                                path.push(k.to_string());
                                walk(x, path, out);
                                path.pop();
                            }
                        }
                        _ => {}
                    }
                }
                walk(&cur[i], &mut vec![], &mut paths);
                for path in paths {
                    let ptr = format!("/{}", path.join("/"));
                    let n = cur[i].pointer(&ptr).and_then(|r| r.as_array()).map(|a| a.len()).unwrap_or(0);
                    for j in 0..n {
                        let mut cand = cur.clone();
                        if let Some(Value::Array(rows)) = cand[i].pointer_mut(&ptr) {
                            rows.remove(j);
                        }
                        if try_case(&cand, &best) {
                            cur = cand;
                            changed = true;
                            break 'outer;
                        }
                    }
                }
            }
        }
    }
    best["events"] = Value::Array(cur);
    best["minimised"] = json!(true);
    best
}

pub fn replays_dir() -> PathBuf {
    let d = Path::new(&verif_root()).join("replays");
    let _ = std::fs::create_dir_all(&d);
    d
}

pub struct CheckOutcome {
    pub exit: i32,
}

#[derive(Default)]
pub struct Agg {
    pub counters: BTreeMap<String, u64>,
    pub fingerprints: BTreeSet<u64>,
    pub nontrivial_fps: BTreeSet<u64>,
    pub steps: u64,
    pub runs: u64,
}

pub fn nontrivial(prop: &str, c: &BTreeMap<String, u64>) -> bool {
    let g = |k: &str| *c.get(k).unwrap_or(&0);
    match prop {
        "C03" => (g("rollbacks") + g("session_drops") + g("failed_statements") + g("failed_batches")) > 0 && (g("state_checks") + g("session_reads") + g("auto_reads")) > 0,
        "C04" => g("overlapping_sessions") > 0 && g("reads_after_later_commit") > 0,
        "C07" => g("failed_statements") > 0,
        "C09" => g("reopens") > 0 && g("state_checks") > 0,
        "C06" => g("plan_families_with_different_physical_plans") > 0,
        "C12" => g("configurations_that_evicted") > 0,
        "C13" => g("vacuums") > 0 && g("state_checks") > 0,
        "C15" => g("ddl_in_session") > 0,
        "C16" => g("failed_statements_in_session") > 0,
        "C10" => g("runs_with_splits") > 0,
        "C11" => (g("pages_freed") > 0 && g("allocations_from_free_list") > 0) || g("audits_with_nonempty_free_list") > 0,
        "C14" => g("context_switches") >= 10 && g("failed_polls") >= 1,
        "C20" if g("served_runs") > 0 => g("served_rows_responses") > 0 && g("sessions") > 0,
        "C20" => (g("pipe_fragmented_reads") + g("pipe_read_eintr") + g("pipe_short_writes")) > 0 && (g("truncated_streams") + g("garbage_streams") + g("mutated_frames") + g("mangled_frames")) > 0,
        "C17" => g("reads_nonempty_correct") > 0 && (g("reopens") + g("truncations") + g("appends_near_block_size")) > 0,
        "C01" => g("crash_points_after_an_ack") > 0,
        "C02" => g("crash_points") > 0 && (g("rollbacks") + g("session_drops") + g("sessions")) > 0,
        "C08" => g("nested_crash_points") > 0,
        _ => true,
    }
}

pub fn engine_name(e: Engine) -> &'static str {
    match e {
        Engine::Sql => "E1-sqlsim",
        Engine::Crash => "E2-crashsim",
        Engine::Wal => "E3a-walsim",
        Engine::Btree => "E3b-btreesim",
        Engine::Thread => "E4-threadsim",
        Engine::Wire => "E5-wiresim + E5b-served",
    }
}

pub fn check(prop_id: &str, tier: &str, verif_seed: u64) -> i32 {
    let Some(info) = props::prop(prop_id) else {
        eprintln!("unknown property {prop_id}");
        return 2;
    };
    let t0 = Instant::now();
    let workers: usize = std::env::var("AXSIM_WORKERS").ok().and_then(|s| s.parse().ok()).unwrap_or(16);
    let runs = std::env::var("AXSIM_RUNS").ok().and_then(|s| s.parse().ok()).unwrap_or(if tier == "thorough" { info.thorough_runs } else { info.quick_runs });
    let scratch = crate::util::fresh_dir("sup");
    let mut exit = 0;
    let mut violations = 0i64;
    let mut findings_reproduced: Vec<String> = vec![];
    let mut findings_not_reproduced: Vec<String> = vec![];
    let mut findings_hit: BTreeMap<String, u64> = BTreeMap::new();
    let findings = load_findings();

    // 1. known findings of this property: reproducers and regression tests
    for f in findings.iter().filter(|f| f.property == prop_id) {
        let Some(rp) = &f.replay else { continue };
        let path = Path::new(&verif_root()).join(rp);
        if !path.exists() {
            println!("HARNESS-ERROR missing reproducer {}", path.display());
            return 2;
        }
        let out = run_replay_file(&path, Duration::from_secs(12));
        let reproduced = out.class() == f.oracle;
        if f.status == "open" {
            if reproduced {
                println!("KNOWN-FINDING: property={} {} [{}]", prop_id, f.what_fails, f.id);
                findings_reproduced.push(f.id.clone());
            } else {
                // not an alarm and not a known finding either: the list needs attention (the finding
                // was repaired on the way, or its reproducer has gone stale)
                println!("NOTE: listed open finding {} of {} did not reproduce (recorded {}, now {}): no KNOWN-FINDING line for it", f.id, prop_id, f.oracle, out.class());
                findings_not_reproduced.push(format!("{} (now: {})", f.id, out.class()));
            }
        } else {
            // fixed: must pass; a fixed entry suppresses nothing
            if !matches!(out, ReplayOutcome::Clean) {
                println!("VIOLATION property={} replay={}", prop_id, path.display());
                println!("  regression of fixed finding {}: {}", f.id, out.class());
                violations += 1;
                exit = 1;
            }
        }
    }

    // 2. determinism sample: the first seeds run twice in separate processes
    let det_n = 12.min(runs);
    let d1 = fan_out(info, verif_seed, 0, det_n, 1, None);
    let d2 = fan_out(info, verif_seed, 0, det_n, 4, None);
    let mut det_mismatch = 0;
    for r in &d1.results {
        if let Some(r2) = d2.results.iter().find(|x| x.idx == r.idx) {
            if r.fingerprint != r2.fingerprint {
                det_mismatch += 1;
            }
        }
    }
    if det_mismatch > 0 {
        println!("HARNESS-ERROR determinism: {det_mismatch} of {det_n} seeds gave different fingerprints in two processes");
        return 2;
    }

    // 3. the exploration itself
    let budget_s: u64 = std::env::var("AXSIM_BUDGET_S").ok().and_then(|s| s.parse().ok()).unwrap_or(if tier == "thorough" { 3600 } else { 240 });
    let deadline = Some(Instant::now() + Duration::from_secs(budget_s));
    let batch = fan_out(info, verif_seed, 0, runs, workers, deadline);
    if !batch.harness_errors.is_empty() {
        for e in &batch.harness_errors {
            println!("HARNESS-ERROR {e}");
        }
        return 2;
    }
    let mut agg = Agg::default();
    let mut samples: Vec<Value> = vec![];
    let mut pending: Vec<(u64, Value, String, String)> = vec![]; // (idx, replay, class, detail)
    for r in &batch.results {
        agg.runs += 1;
        agg.steps += r.steps;
        for (k, v) in &r.counters {
            *agg.counters.entry(k.clone()).or_insert(0) += v;
        }
        agg.fingerprints.insert(r.fingerprint);
        if nontrivial(prop_id, &r.counters) {
            agg.nontrivial_fps.insert(r.fingerprint);
        }
        if let Some(v) = &r.violation {
            pending.push((r.idx, r.replay.clone().unwrap_or(json!({})), v.oracle.clone(), v.detail.clone()));
        }
    }
    for (idx, what) in &batch.dead {
        // regenerate the case to obtain its replay payload
        let rp = crate::worker::case_json(prop_id, verif_seed, *idx);
        let class = if what.contains("hang") { "O-live:hang" } else { "O-live:process-died" };
        pending.push((*idx, rp, class.to_string(), what.clone()));
    }
    for i in 0..3.min(runs) {
        samples.push(crate::worker::sample_json(prop_id, verif_seed, i));
    }

    // 4. minimise, classify, report
    let max_report = 5;
    let mut reported = 0;
    for (idx, replay, class, detail) in pending {
        if reported >= max_report {
            violations += 1;
            continue;
        }
        // confirm in a fresh process first
        let p0 = scratch.join("orig.json");
        std::fs::write(&p0, serde_json::to_vec(&replay).unwrap()).unwrap();
        let mut class = class;
        let again = run_replay_file(&p0, Duration::from_secs(if class == "O-live:hang" { 4 * info.watchdog_s } else { 30 }));
        if class == "O-live:hang" && again.class() != class {
            // The watchdog measures wall-clock time. A run that made no progress for watchdog_s seconds
            // among 16 busy workers (or on a loaded machine) but finishes alone, in a fresh process and
            // with four times the patience, was slow, not hung: a hang is deterministic and would hang
            // again. Whatever the fresh run reports instead is what is judged.
            *agg.counters.entry("runs_slow_under_load_not_hung".into()).or_insert(0) += 1;
            if again.class() == "clean" {
                continue;
            }
            class = again.class().to_string();
        }
        if again.class() != class {
            println!("HARNESS-ERROR run {idx} reported {class} but its replay gives {} in a fresh process", again.class());
            return 2;
        }
        let min = minimise(&replay, &class, &scratch, Duration::from_secs(if tier == "thorough" { 120 } else { 40 }));
        let pm = scratch.join("min.json");
        std::fs::write(&pm, serde_json::to_vec(&min).unwrap()).unwrap();
        let (fin, out) = match run_replay_file(&pm, Duration::from_secs(30)) {
            o if o.class() == class => (min, o),
            _ => (replay.clone(), again.clone()),
        };
        let detail = match &out {
            ReplayOutcome::Violation(v) => v.detail.clone(),
            _ => detail,
        };
        // classify against open findings
        if let Some(fid) = crate::triggers::classify(prop_id, &class, &detail, &fin, &findings) {
            // (kept for inspection; happens only when a guard was lifted by hand)
            let mut f2 = fin.clone();
            f2["violation_class"] = json!(class);
            f2["violation_detail"] = json!(detail);
            let _ = std::fs::write(replays_dir().join(format!("KNOWN-{}-{}-{}-{}.json", fid, prop_id, verif_seed, idx)), serde_json::to_vec_pretty(&f2).unwrap());
            *findings_hit.entry(fid).or_insert(0) += 1;
            continue;
        }
        violations += 1;
        reported += 1;
        exit = 1;
        let mut fin = fin;
        fin["violation_class"] = json!(class);
        fin["violation_detail"] = json!(detail);
        fin["verif_seed"] = json!(verif_seed);
        fin["run_index"] = json!(idx);
        let path = replays_dir().join(format!("{}-{}-{}.json", prop_id, verif_seed, idx));
        std::fs::write(&path, serde_json::to_vec_pretty(&fin).unwrap()).unwrap();
        println!("VIOLATION property={} replay={}", prop_id, path.display());
        println!("  {class}: {}", detail.chars().take(400).collect::<String>());
    }

    // 5. evidence
    let wall = t0.elapsed().as_secs_f64();
    let ev = json!({
        "property_id": prop_id,
        "tier": tier,
        "seed": verif_seed,
        "level": info.level,
        "wall_s": wall,
        "violations": violations,
        "coverage": {
            "evaluations": agg.runs,
            "distinct_nontrivial": agg.nontrivial_fps.len(),
            "rule": info.rule,
            "samples": samples,
            "distinct_fingerprints": agg.fingerprints.len(),
            "simulated_steps": agg.steps,
            "runs_per_hour": if wall > 0.0 { (agg.runs as f64 / wall * 3600.0) as u64 } else { 0 },
            "fault_and_event_counts": agg.counters,
            "dead_or_hung_workers": batch.dead.len(),
            "determinism_sample": {"seeds_run_twice": det_n, "mismatches": det_mismatch},
            "guards_active": crate::worker::guards_for(prop_id),
            "known_findings_reproduced": findings_reproduced,
            "known_findings_not_reproduced": findings_not_reproduced,
            "known_findings_hit": findings_hit,
            "engine": engine_name(info.engine),
            "components_real": ["parser", "binder", "optimizer", "executor", "catalog", "coordinator (MVCC)", "B+tree", "pager", "page cache", "WAL", "recovery", "thread pool", "files on tmpfs (O_DIRECT)"],
            "components_stubbed": crate::worker::stubs_for(info.engine),
        },
        "assumptions": crate::worker::assumptions_for(prop_id),
    });
    let evdir = Path::new(&verif_root()).join("evidence");
    let _ = std::fs::create_dir_all(&evdir);
    std::fs::write(evdir.join(format!("{prop_id}.json")), serde_json::to_vec_pretty(&ev).unwrap()).unwrap();
    println!(
        "property={} tier={} runs={} distinct_nontrivial={} violations={} known_hit={:?} wall={:.1}s",
        prop_id,
        tier,
        agg.runs,
        agg.nontrivial_fps.len(),
        violations,
        findings_hit,
        wall
    );
    let _ = std::fs::remove_dir_all(&scratch);
    exit
}
