//! E4: real threads, one runnable at a time. Client threads and the engine's pool workers
//! register with a baton scheduler (installed through hook H3); at every lock / latch /
//! queue / job-wait point the running thread hands the decision "who runs next" to a seeded
//! PRNG. Blocking operations are conditions polled under the baton, so a deadlock is the
//! state "nobody eligible while a client is unfinished" - detected exactly, at the step it
//! happens. The recorded choice list is the schedule; replay feeds it back.
use crate::eng::{Cfg, Eng, ErrClass, Out};
use crate::run::RunResult;
use crate::sqlsim::Violation;
use crate::util::{self, Rng};
use axmosdb::verif::sched::{self, Scheduler};
use serde::{Deserialize, Serialize};
use std::cell::Cell;
use std::collections::BTreeMap;
use std::sync::{Arc, Condvar, Mutex};

#[derive(Clone, Copy, PartialEq, Debug)]
enum St {
    Runnable,
    Finished,
}

struct T {
    st: St,
    failed_epoch: u64,
    is_client: bool,
    /// diagnostics (AXSIM_BT): where the thread last failed to get what it waits for
    wait: String,
    bt: Option<std::backtrace::Backtrace>,
}

struct Inner {
    active: bool,
    threads: Vec<T>,
    current: usize,
    rng: Rng,
    epoch: u64,
    deadlock: bool,
    steps: u64,
    switch_pct: u64,
    /// PCT (probabilistic concurrency testing): when non-empty, every thread has a priority, the
    /// runnable thread with the highest one runs, and at each of these step numbers the running thread
    /// drops below everybody else (d - 1 change points find ordering bugs of depth d)
    pct_change_points: Vec<u64>,
    prio: Vec<i64>,
    next_low_prio: i64,
    /// recorded decisions (thread chosen at each decision point)
    choices: Vec<u32>,
    /// when replaying: decisions to follow
    script: Option<Vec<u32>>,
    script_pos: usize,
    site_pairs: std::collections::BTreeSet<(u32, u32)>,
    last_site: u32,
    switches: u64,
    failed_polls: u64,
    trace_hash: u64,
    /// steps consumed per thread since its current call started (bounded liveness)
    call_steps: Vec<u64>,
    max_call_steps: u64,
    /// lock address -> threads waiting to take it exclusively. parking_lot's RwLock sets its writer
    /// bit as soon as a writer starts to wait, and from then on every new (non-recursive) reader
    /// waits behind it: a thread that re-takes a read lock it already holds deadlocks with a waiting
    /// writer. The baton gives the locks the same policy.
    waiting_writers: std::collections::BTreeMap<usize, std::collections::BTreeSet<usize>>,
    readers_held_back: u64,
    recursive_reads_ahead_of_writer: u64,
}

pub struct Baton {
    m: Mutex<Option<Inner>>,
    cv: Condvar,
}

thread_local! { static ME: Cell<usize> = const { Cell::new(usize::MAX) }; }

fn me() -> usize {
    ME.with(|m| m.get())
}

impl Baton {
    fn pick_next(i: &mut Inner, me: usize, must_switch: bool) {
        let elig: Vec<usize> = (0..i.threads.len()).filter(|&t| i.threads[t].st == St::Runnable && i.threads[t].failed_epoch != i.epoch).collect();
        if elig.is_empty() {
            if i.threads.iter().any(|t| t.is_client && t.st != St::Finished) {
                i.deadlock = true;
                i.active = false;
                if std::env::var("AXSIM_BT").is_ok() {
                    for (t, th) in i.threads.iter().enumerate() {
                        eprintln!("DEADLOCK thread {t} client={} finished={}\n{}\n{}", th.is_client, th.st == St::Finished, th.wait, th.bt.as_ref().map(|b| b.to_string()).unwrap_or_default());
                    }
                    eprintln!("waiting writers: {:?}", i.waiting_writers);
                }
            }
            return;
        }
        let next = if let Some(s) = &i.script {
            // replay: follow the recorded decision if it is still legal
            let want = s.get(i.script_pos).copied();
            i.script_pos += 1;
            match want {
                Some(w) if elig.contains(&(w as usize)) => w as usize,
                _ => elig[0],
            }
        } else if !i.pct_change_points.is_empty() {
            while i.prio.len() < i.threads.len() {
                let p = 1 + i.rng.below(1_000_000) as i64;
                i.prio.push(p);
            }
            if i.pct_change_points.contains(&i.steps) && me < i.prio.len() {
                i.prio[me] = i.next_low_prio;
                i.next_low_prio -= 1;
            }
            *elig.iter().max_by_key(|&&t| i.prio[t]).unwrap()
        } else {
            let stay = !must_switch && elig.contains(&me) && i.rng.below(100) >= i.switch_pct;
            if stay { me } else { elig[i.rng.below(elig.len() as u64) as usize] }
        };
        i.choices.push(next as u32);
        if next != i.current {
            i.switches += 1;
        }
        i.current = next;
    }

    fn wait_turn(&self, me: usize) {
        let mut g = self.m.lock().unwrap_or_else(|e| e.into_inner());
        loop {
            match g.as_ref() {
                None => return,
                Some(i) if !i.active => return,
                Some(i) if i.current == me => return,
                _ => {}
            }
            g = self.cv.wait(g).unwrap_or_else(|e| e.into_inner());
        }
    }

    fn yield_point(&self, site: u32) {
        let me = me();
        {
            let mut g = self.m.lock().unwrap_or_else(|e| e.into_inner());
            let Some(i) = g.as_mut() else { return };
            if !i.active {
                return;
            }
            i.steps += 1;
            i.epoch += 1;
            i.call_steps[me] += 1;
            i.max_call_steps = i.max_call_steps.max(i.call_steps[me]);
            util::fnv(&mut i.trace_hash, &[(me as u8), site as u8]);
            let ls = i.last_site;
            i.site_pairs.insert((ls, site));
            i.last_site = site;
            Self::pick_next(i, me, false);
            if i.current == me {
                return;
            }
        }
        self.cv.notify_all();
        self.wait_turn(me);
    }
}

impl Baton {
    /// `behind_writer`: for a recursive shared acquisition, whether it may go ahead of a waiting
    /// writer right now (parking_lot lets it when the lock is held shared at that moment).
    fn block_on(&self, site: u32, lock: usize, pred: &dyn Fn() -> bool, behind_writer: Option<&dyn Fn() -> bool>) {
        let me = me();
        if me == usize::MAX {
            return;
        }
        let exclusive = matches!(site, sched::site::PAGER_WRITE | sched::site::WRITE_LATCH | sched::site::FRAME_BYTES_MUT);
        let shared = matches!(site, sched::site::PAGER_READ | sched::site::READ_LATCH | sched::site::FRAME_BYTES);
        self.yield_point(site);
        loop {
            let mut ok = pred();
            if lock != 0 && (exclusive || shared) {
                let mut g = self.m.lock().unwrap_or_else(|e| e.into_inner());
                if let Some(i) = g.as_mut() {
                    if i.active {
                        if exclusive {
                            if ok {
                                if let Some(w) = i.waiting_writers.get_mut(&lock) {
                                    w.remove(&me);
                                    if w.is_empty() {
                                        i.waiting_writers.remove(&lock);
                                    }
                                }
                            } else {
                                i.waiting_writers.entry(lock).or_default().insert(me);
                            }
                        } else if ok && i.waiting_writers.get(&lock).is_some_and(|w| w.iter().any(|&t| t != me)) {
                            // a writer waits for this lock: a new reader queues behind it, unless the
                            // acquisition is recursive and the lock is held shared right now
                            if behind_writer.is_some_and(|f| f()) {
                                i.recursive_reads_ahead_of_writer += 1;
                            } else {
                                ok = false;
                                i.readers_held_back += 1;
                            }
                        }
                    }
                }
            }
            if ok {
                return;
            }
            {
                let mut g = self.m.lock().unwrap_or_else(|e| e.into_inner());
                let Some(i) = g.as_mut() else { return };
                if !i.active {
                    return;
                }
                i.steps += 1;
                i.failed_polls += 1;
                i.threads[me].failed_epoch = i.epoch;
                if std::env::var("AXSIM_BT").is_ok() {
                    i.threads[me].wait = format!("site {site} lock {lock:#x}");
                    i.threads[me].bt = Some(std::backtrace::Backtrace::force_capture());
                }
                util::fnv(&mut i.trace_hash, &[(me as u8), site as u8, 0xFF]);
                Self::pick_next(i, me, true);
                if i.deadlock {
                    drop(g);
                    self.cv.notify_all();
                    return;
                }
            }
            self.cv.notify_all();
            self.wait_turn(me);
            let still = self.m.lock().unwrap_or_else(|e| e.into_inner()).as_ref().map(|i| i.active).unwrap_or(false);
            if !still {
                return;
            }
        }
    }
}

impl Scheduler for Baton {
    fn block_until(&self, site: u32, pred: &dyn Fn() -> bool) {
        self.block_until_on(site, 0, pred)
    }
    fn block_until_on(&self, site: u32, lock: usize, pred: &dyn Fn() -> bool) {
        self.block_on(site, lock, pred, None)
    }
    fn block_until_shared(&self, site: u32, lock: usize, free: &dyn Fn() -> bool, shared_now: &dyn Fn() -> bool) {
        self.block_on(site, lock, free, Some(shared_now))
    }
    fn alloc_thread(&self) -> usize {
        if me() == usize::MAX {
            return usize::MAX;
        }
        let mut g = self.m.lock().unwrap_or_else(|e| e.into_inner());
        match g.as_mut() {
            Some(i) if i.active => {
                i.threads.push(T { st: St::Runnable, failed_epoch: u64::MAX, is_client: false, wait: String::new(), bt: None });
                i.call_steps.push(0);
                i.threads.len() - 1
            }
            _ => usize::MAX,
        }
    }
    fn enter(&self, vid: usize) {
        ME.with(|m| m.set(vid));
        self.wait_turn(vid);
    }
    fn exit(&self) {
        let me = me();
        if me == usize::MAX {
            return;
        }
        {
            let mut g = self.m.lock().unwrap_or_else(|e| e.into_inner());
            if let Some(i) = g.as_mut() {
                if i.active {
                    i.threads[me].st = St::Finished;
                    i.epoch += 1;
                    Self::pick_next(i, me, true);
                }
            }
        }
        ME.with(|m| m.set(usize::MAX));
        self.cv.notify_all();
    }
    fn controls_current_thread(&self) -> bool {
        me() != usize::MAX && self.m.lock().unwrap_or_else(|e| e.into_inner()).as_ref().map(|i| i.active).unwrap_or(false)
    }
}

impl Baton {
    fn spawn_client<F: FnOnce() + Send + 'static>(self: &Arc<Self>, f: F) -> (usize, std::thread::JoinHandle<()>) {
        let vid = {
            let mut g = self.m.lock().unwrap();
            let i = g.as_mut().unwrap();
            i.threads.push(T { st: St::Runnable, failed_epoch: u64::MAX, is_client: true, wait: String::new(), bt: None });
            i.call_steps.push(0);
            i.threads.len() - 1
        };
        let me2 = self.clone();
        let h = std::thread::spawn(move || {
            me2.enter(vid);
            struct G(Arc<Baton>);
            impl Drop for G {
                fn drop(&mut self) {
                    self.0.exit();
                }
            }
            let _g = G(me2.clone());
            f();
        });
        (vid, h)
    }
    fn finished(&self, vid: usize) -> bool {
        self.m.lock().unwrap_or_else(|e| e.into_inner()).as_ref().map(|i| i.threads[vid].st == St::Finished || !i.active).unwrap_or(true)
    }
    fn begin_call(&self) {
        let me = me();
        if let Some(i) = self.m.lock().unwrap_or_else(|e| e.into_inner()).as_mut() {
            if me < i.call_steps.len() {
                i.call_steps[me] = 0;
            }
        }
    }
    fn is_deadlocked(&self) -> bool {
        self.m.lock().unwrap_or_else(|e| e.into_inner()).as_ref().map(|i| i.deadlock).unwrap_or(false)
    }
}

#[derive(Clone, Debug, Serialize, Deserialize)]
pub struct ThreadReplay {
    pub property: String,
    pub engine: String,
    pub seed: u64,
    pub cfg: Cfg,
    pub clients: u32,
    pub ops: u32,
    /// all clients use one table, or one table each
    pub shared_table: bool,
    /// clients use their own session (commit at the end) instead of autocommit
    pub sessions: bool,
    pub switch_pct: u64,
    /// scheduling strategy: empty = seeded random with `switch_pct`; otherwise PCT with these change points
    #[serde(default)]
    pub pct_change_points: Vec<u64>,
    /// per client and operation: the earlier own row (its operation number) deleted after this insert
    #[serde(default)]
    pub deletes: Vec<Vec<Option<u32>>>,
    /// tables have a PRIMARY KEY, so every insert and delete also works on an index tree
    #[serde(default)]
    pub indexed: bool,
    /// wide rows: a padding TEXT column of this many bytes (0 = none), so that a table spans several
    /// leaves and inserts split and rebalance them while other clients scan
    #[serde(default)]
    pub pad: u32,
    /// rows every table holds before the clients start (ids 1..=preload)
    #[serde(default)]
    pub preload: u32,
    /// table each client's i-th SELECT COUNT(*) reads (readers and writers meet on the same tables)
    #[serde(default)]
    pub read_tables: Vec<Vec<u32>>,
    /// recorded schedule (filled in when a violation is reported)
    #[serde(default)]
    pub events: Vec<u32>,
    #[serde(default)]
    pub violation: Option<Violation>,
}

pub fn gen_case(verif_seed: u64, idx: u64) -> ThreadReplay {
    let seed = util::mix(verif_seed, "C14", idx);
    let mut rng = Rng::new(seed);
    let cfg = Cfg { page: *rng.pick(&[4096usize, 8192]), cache: *rng.pick(&[48usize, 64, 10000]), pool: rng.range(1, 4) as usize, min_keys: 3, siblings: rng.range(1, 2) as usize };
    let clients = rng.range(2, 4) as u32;
    let ops = rng.range(2, 6) as u32;
    // half of the runs: all clients insert into one table (finding T1, repaired); reads go to any table
    let shared_table = rng.chance(50);
    let read_tables: Vec<Vec<u32>> = (0..clients).map(|_| (0..ops).map(|_| rng.below(clients as u64) as u32).collect()).collect();
    // half of the runs also delete: after its i-th insert a client may delete one of its own earlier
    // rows (each at most once), so deletes never meet another client's delete
    let with_deletes = rng.chance(50);
    let deletes: Vec<Vec<Option<u32>>> = (0..clients)
        .map(|_| {
            let mut gone: Vec<u32> = vec![];
            (0..ops)
                .map(|i| {
                    let cands: Vec<u32> = (0..=i).filter(|j| !gone.contains(j)).collect();
                    if with_deletes && !cands.is_empty() && rng.chance(40) {
                        let j = cands[rng.below(cands.len() as u64) as usize];
                        gone.push(j);
                        Some(j)
                    } else {
                        None
                    }
                })
                .collect()
        })
        .collect();
    let indexed = rng.chance(40);
    // a third of the runs: wide rows (about 8-9 per 4 KiB leaf), tables of one to three leaves before the
    // clients start and up to ten inserts per client, so that leaves split during other clients' scans
    let wide = rng.chance(33);
    let (pad, preload) = if wide { (400, rng.range(5, 20) as u32) } else { (0, 0) };
    let ops = if wide { rng.range(4, 10) as u32 } else { ops };
    let read_tables: Vec<Vec<u32>> = if wide { (0..clients).map(|_| (0..ops).map(|_| rng.below(clients as u64) as u32).collect()).collect() } else { read_tables };
    let deletes: Vec<Vec<Option<u32>>> = if wide { (0..clients).map(|_| vec![None; ops as usize]).collect() } else { deletes };
    ThreadReplay {
        property: "C14".into(),
        engine: "E4-threadsim".into(),
        seed,
        cfg,
        clients,
        ops,
        read_tables,
        deletes,
        indexed,
        pad,
        preload,
        shared_table,
        sessions: rng.chance(35),
        switch_pct: *rng.pick(&[10u64, 30, 50, 80]),
        // a third of the runs use PCT with 1-3 change points placed within the first ~4000 scheduling
        // steps (a run of 3 clients x 5 statements takes 1000-6000 steps)
        pct_change_points: if rng.chance(33) { (0..rng.range(1, 3)).map(|_| rng.below(4000)).collect() } else { vec![] },
        events: vec![],
        violation: None,
    }
}

const STEP_BUDGET: u64 = 60_000;

#[derive(Default)]
struct ClientLog {
    /// (event seq at invocation, event seq at return, statement, outcome)
    calls: Vec<(u64, u64, String, Out)>,
}

pub fn run_case(case: &ThreadReplay, idx: u64) -> RunResult {
    let mut counters: BTreeMap<String, u64> = BTreeMap::new();
    let dir = util::fresh_dir("e4");
    let baton = Arc::new(Baton { m: Mutex::new(None), cv: Condvar::new() });
    {
        let mut g = baton.m.lock().unwrap();
        *g = Some(Inner {
            active: true,
            threads: vec![T { st: St::Runnable, failed_epoch: u64::MAX, is_client: true, wait: String::new(), bt: None }],
            current: 0,
            rng: Rng::new(case.seed ^ 0x5ced),
            epoch: 0,
            deadlock: false,
            steps: 0,
            switch_pct: case.switch_pct,
            pct_change_points: case.pct_change_points.clone(),
            prio: vec![],
            next_low_prio: 0,
            choices: vec![],
            script: if case.events.is_empty() { None } else { Some(case.events.clone()) },
            script_pos: 0,
            site_pairs: Default::default(),
            last_site: 0,
            switches: 0,
            failed_polls: 0,
            trace_hash: 0xcbf29ce484222325,
            call_steps: vec![0],
            max_call_steps: 0,
            waiting_writers: Default::default(),
            readers_held_back: 0,
            recursive_reads_ahead_of_writer: 0,
        });
    }
    ME.with(|m| m.set(0));
    if std::env::var("AXSIM_NOSCHED").is_err() {
        sched::install(baton.clone());
    } else {
        // diagnostic mode: real OS scheduling (not deterministic); used once to confirm that a
        // finding is not an artefact of the baton
        baton.m.lock().unwrap().as_mut().unwrap().active = false;
    }
    let mut viol: Option<Violation> = None;
    let eng = match Eng::create(&dir, case.cfg) {
        Ok(e) => Arc::new(e),
        Err(e) => {
            sched::uninstall();
            ME.with(|m| m.set(usize::MAX));
            return RunResult { idx, seed: case.seed, violation: Some(Violation { oracle: "O-open".into(), event: 0, detail: e }), counters, fingerprint: 0, steps: 0, replay: None, hazards: vec![] };
        }
    };
    let ntables = if case.shared_table { 1 } else { case.clients };
    for t in 0..ntables {
        let padcol = if case.pad > 0 { ", pad TEXT" } else { "" };
        let o = eng.exec(&if case.indexed { format!("CREATE TABLE t{t} (id BIGINT, v INT{padcol}, PRIMARY KEY (id))") } else { format!("CREATE TABLE t{t} (id BIGINT, v INT{padcol})") });
        if o.is_err() {
            viol = Some(Violation { oracle: "O-res".into(), event: 0, detail: format!("setup failed: {}", o.short()) });
        }
        for r in 1..=case.preload {
            let o = eng.exec(&format!("INSERT INTO t{t} VALUES ({r}, 0, '{}')", "p".repeat(case.pad as usize)));
            if o.is_err() {
                viol = Some(Violation { oracle: "O-res".into(), event: 0, detail: format!("setup failed: {}", o.short()) });
            }
        }
    }
    // one committed row before the clients start (part of the base count of t0)
    let _ = eng.exec(&if case.pad > 0 { format!("INSERT INTO t0 VALUES (0, 0, '{}')", "p".repeat(case.pad as usize)) } else { "INSERT INTO t0 VALUES (0, 0)".to_string() });
    let seq = Arc::new(std::sync::atomic::AtomicU64::new(0));
    let logs: Vec<Arc<Mutex<ClientLog>>> = (0..case.clients).map(|_| Arc::new(Mutex::new(ClientLog::default()))).collect();
    let mut handles = vec![];
    if viol.is_none() {
        for c in 0..case.clients {
            let eng = eng.clone();
            let log = logs[c as usize].clone();
            let seq = seq.clone();
            let b2 = baton.clone();
            let (ops, shared, sessions) = (case.ops, case.shared_table, case.sessions);
            let padval = if case.pad > 0 { format!(", '{}'", "p".repeat(case.pad as usize)) } else { String::new() };
            let reads: Vec<u32> = case.read_tables.get(c as usize).cloned().unwrap_or_default();
            let dels: Vec<Option<u32>> = case.deletes.get(c as usize).cloned().unwrap_or_default();
            handles.push(baton.spawn_client(move || {
                use std::sync::atomic::Ordering::SeqCst;
                let table = if shared { 0 } else { c };
                let mut sess = if sessions { eng.db().session().ok() } else { None };
                for i in 0..ops {
                    for kind in 0..3 {
                        if b2.is_deadlocked() {
                            return;
                        }
                        let rt = if shared { 0 } else { reads.get(i as usize).copied().unwrap_or(table) };
                        let sql = match kind {
                            0 => format!("INSERT INTO t{table} VALUES ({}, {i}{padval})", (c + 1) * 1000 + i),
                            1 => match dels.get(i as usize).copied().flatten() {
                                Some(j) => format!("DELETE FROM t{table} WHERE id = {}", (c + 1) * 1000 + j),
                                None => continue,
                            },
                            _ => format!("SELECT COUNT(*) FROM t{rt}"),
                        };
                        b2.begin_call();
                        let s0 = seq.fetch_add(1, SeqCst);
                        let out = match sess.as_mut() {
                            Some(s) => crate::eng::norm(s.execute(&sql).map_err(|e| e.to_string())),
                            None => eng.exec(&sql),
                        };
                        let s1 = seq.fetch_add(1, SeqCst);
                        log.lock().unwrap().calls.push((s0, s1, sql, out));
                    }
                }
                if let Some(mut s) = sess.take() {
                    b2.begin_call();
                    let s0 = seq.fetch_add(1, SeqCst);
                    let out = match s.commit_transaction() {
                        Ok(()) => Out::Ok,
                        Err(e) => {
                            let m = e.to_string();
                            Out::Err(crate::eng::classify(&m), m)
                        }
                    };
                    let s1 = seq.fetch_add(1, SeqCst);
                    log.lock().unwrap().calls.push((s0, s1, "COMMIT".into(), out));
                }
            }));
        }
        let vids: Vec<usize> = handles.iter().map(|h| h.0).collect();
        let b3 = baton.clone();
        baton.block_until(99, &|| vids.iter().all(|v| b3.finished(*v)));
    }
    // leave the scheduler: from here on threads run freely (teardown is not part of the schedule)
    let (deadlock, steps, choices, pairs, switches, failed, thash, max_call, held_back, rec_ahead) = {
        let mut g = baton.m.lock().unwrap();
        let i = g.as_mut().unwrap();
        i.active = false;
        (i.deadlock, i.steps, i.choices.clone(), i.site_pairs.len(), i.switches, i.failed_polls, i.trace_hash, i.max_call_steps, i.readers_held_back, i.recursive_reads_ahead_of_writer)
    };
    baton.cv.notify_all();
    sched::uninstall();
    ME.with(|m| m.set(usize::MAX));
    counters.insert("scheduler_steps".into(), steps);
    counters.insert("context_switches".into(), switches);
    counters.insert(if case.pct_change_points.is_empty() { "schedules_random".into() } else { format!("schedules_pct_depth_{}", case.pct_change_points.len() + 1) }, 1);
    counters.insert("failed_polls".into(), failed);
    counters.insert("readers_queued_behind_a_waiting_writer".into(), held_back);
    counters.insert("recursive_reads_ahead_of_a_waiting_writer".into(), rec_ahead);
    counters.insert("distinct_ordered_site_pairs".into(), pairs as u64);
    counters.insert("max_steps_of_one_call".into(), max_call);
    counters.insert(format!("clients_{}", case.clients), 1);
    counters.insert(format!("pool_{}", case.cfg.pool), 1);
    if case.sessions {
        counters.insert("runs_with_sessions".into(), 1);
    }
    if case.shared_table {
        counters.insert("runs_with_shared_table".into(), 1);
    }
    if case.pad > 0 {
        counters.insert("runs_with_multi_leaf_tables".into(), 1);
    }
    let panics = util::take_panics();
    if deadlock {
        viol = Some(Violation { oracle: "O-deadlock".into(), event: steps as usize, detail: format!("no thread can make progress after {steps} scheduler steps while a client call is unfinished{}", if panics.is_empty() { String::new() } else { format!(" [engine panics: {}]", panics.join(" | ")) }) });
    } else if !panics.is_empty() {
        viol = Some(Violation { oracle: "O-live".into(), event: steps as usize, detail: format!("engine thread panicked: {}", panics.join(" | ")) });
    }
    if viol.is_none() && max_call > STEP_BUDGET {
        viol = Some(Violation { oracle: "O-bounded".into(), event: steps as usize, detail: format!("one call needed {max_call} scheduler steps (budget {STEP_BUDGET})") });
    }
    if !deadlock {
        for h in handles {
            let _ = h.1.join();
        }
    }
    // history oracles
    if viol.is_none() {
        let mut all: Vec<(u64, u64, String, Out, u32)> = vec![];
        for (c, l) in logs.iter().enumerate() {
            for (a, b, s, o) in l.lock().unwrap().calls.iter() {
                all.push((*a, *b, s.clone(), o.clone(), c as u32));
            }
        }
        all.sort_by_key(|x| x.0);
        'outer: for (a, b, s, o, c) in &all {
            if let Out::Err(cl, m) = o {
                let allowed = matches!(cl, ErrClass::Conflict) && s == "COMMIT";
                if !allowed {
                    viol = Some(Violation { oracle: "O-res".into(), event: *a as usize, detail: format!("client {c}: `{s}` failed for an internal reason: {m}") });
                    break 'outer;
                }
            }
            if s.starts_with("DELETE FROM") {
                // the row is the client's own, inserted (and acknowledged) earlier: exactly one row goes
                if !matches!(o, Out::Count(1)) {
                    viol = Some(Violation { oracle: "O-res".into(), event: *a as usize, detail: format!("client {c}: `{s}` of a row the client had inserted itself returned {}", o.short()) });
                    break 'outer;
                }
                counters.insert("deletes_checked".into(), counters.get("deletes_checked").copied().unwrap_or(0) + 1);
            }
            if s.starts_with("SELECT COUNT") && !case.sessions {
                if let Out::Rows(r) = o {
                    let n: u64 = r[0][0].parse().unwrap_or(0);
                    let table = s.rsplit(' ').next().unwrap().to_string();
                    // inserts into this table acknowledged before the call started ... invoked before it returned
                    let base = case.preload as u64 + if table == "t0" { 1 } else { 0 };
                    // at least: inserts acknowledged before it started, minus deletes invoked before it returned;
                    // at most: inserts invoked before it returned, minus deletes acknowledged before it started
                    let ins_acked = all.iter().filter(|x| x.2.starts_with(&format!("INSERT INTO {table} ")) && x.1 < *a && !x.3.is_err()).count() as u64;
                    let ins_invoked = all.iter().filter(|x| x.2.starts_with(&format!("INSERT INTO {table} ")) && x.0 < *b).count() as u64;
                    let del_acked = all.iter().filter(|x| x.2.starts_with(&format!("DELETE FROM {table} ")) && x.1 < *a && !x.3.is_err()).count() as u64;
                    let del_invoked = all.iter().filter(|x| x.2.starts_with(&format!("DELETE FROM {table} ")) && x.0 < *b).count() as u64;
                    let lo = (base + ins_acked).saturating_sub(del_invoked);
                    let hi = (base + ins_invoked).saturating_sub(del_acked);
                    if n < lo || n > hi {
                        viol = Some(Violation { oracle: "O-linear".into(), event: *a as usize, detail: format!("client {c}: `{s}` returned {n}; inserts acknowledged before it started {ins_acked} / invoked before it returned {ins_invoked}, deletes acknowledged before it started {del_acked} / invoked before it returned {del_invoked}: allowed {lo}..={hi}") });
                        break 'outer;
                    }
                    counters.insert("count_reads_checked".into(), counters.get("count_reads_checked").copied().unwrap_or(0) + 1);
                }
            }
        }
        // final contents = all acknowledged inserts
        if viol.is_none() {
            for t in 0..ntables {
                let committed = |x: &&(u64, u64, String, Out, u32)| !case.sessions || all.iter().any(|y| y.4 == x.4 && y.2 == "COMMIT" && !y.3.is_err());
                let want = case.preload as usize
                    + (if t == 0 { 1 } else { 0 })
                    + all.iter().filter(|x| x.2.starts_with(&format!("INSERT INTO t{t} ")) && !x.3.is_err()).filter(committed).count()
                    - all.iter().filter(|x| x.2.starts_with(&format!("DELETE FROM t{t} ")) && !x.3.is_err()).filter(committed).count();
                match eng.exec(&format!("SELECT COUNT(*) FROM t{t}")) {
                    Out::Rows(r) if r[0][0] == want.to_string() => {}
                    o => {
                        viol = Some(Violation { oracle: "O-state".into(), event: 0, detail: format!("table t{t}: acknowledged (and committed) inserts minus deletes = {want}, final COUNT(*) = {}", o.short()) });
                        break;
                    }
                }
            }
        }
    }
    let eng = Arc::try_unwrap(eng).ok();
    match eng {
        Some(mut e) if !deadlock => e.close(),
        Some(e) => e.leak(),
        None => {}
    }
    let _ = std::fs::remove_dir_all(&dir);
    let _ = util::take_panics();
    let mut res = RunResult { idx, seed: case.seed, violation: viol.clone(), counters, fingerprint: thash, steps, replay: None, hazards: vec![] };
    if viol.is_some() {
        let mut c = case.clone();
        c.violation = viol;
        c.events = choices;
        res.replay = Some(serde_json::to_value(&c).unwrap());
    }
    res
}

pub fn sample_of(case: &ThreadReplay) -> serde_json::Value {
    serde_json::json!({"seed": case.seed, "cfg": case.cfg, "clients": case.clients, "ops_per_client": case.ops, "shared_table": case.shared_table, "sessions": case.sessions, "indexed": case.indexed, "deletes": case.deletes.iter().map(|d| d.iter().filter(|x| x.is_some()).count()).sum::<usize>(), "switch_pct": case.switch_pct, "pct_change_points": case.pct_change_points})
}
