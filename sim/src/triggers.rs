//! Trigger predicates used as classifiers: a minimised violation is attributed to an
//! open known finding iff the finding's oracle matches and its predicate holds on the
//! minimised history. Everything else is reported as a VIOLATION.
use crate::sup::Finding;
use serde_json::Value;

fn events_text(replay: &Value) -> Vec<String> {
    replay
        .get("events")
        .and_then(|e| e.as_array())
        .map(|a| a.iter().map(|e| e.to_string()).collect())
        .unwrap_or_default()
}

/// Does the named predicate hold on this (minimised) replay?
pub fn holds(name: &str, _class: &str, detail: &str, replay: &Value) -> bool {
    let evs = events_text(replay);
    let any = |needle: &str| evs.iter().any(|e| e.contains(needle));
    match name {
        "panic_at" => true, // refined by `detail_contains` of the finding itself
        "history_contains_vacuum" => any("\"Vacuum\""),
        "history_contains_analyze" => any("\"Analyze\""),
        "history_contains_alter" => any("\"Alter\""),
        "history_contains_update" => any("\"Update\""),
        "update_inside_session" => evs.iter().any(|e| e.contains("\"Exec\"") && e.contains("\"Update\"")),
        "drop_table_inside_session" => evs.iter().any(|e| e.contains("\"Exec\"") && e.contains("\"DropTable\"")),
        _ => {
            let _ = detail;
            false
        }
    }
}

pub fn classify(prop: &str, class: &str, detail: &str, replay: &Value, findings: &[Finding]) -> Option<String> {
    for f in findings {
        if f.status != "open" || f.property != prop || f.oracle != class {
            continue;
        }
        let Some(t) = &f.trigger else { continue };
        // "name" or "name:substring-of-detail"
        let (name, needle) = match t.split_once(':') {
            Some((n, s)) => (n, Some(s)),
            None => (t.as_str(), None),
        };
        if let Some(s) = needle {
            if !detail.contains(s) {
                continue;
            }
        }
        if holds(name, class, detail, replay) {
            return Some(f.id.clone());
        }
    }
    None
}
