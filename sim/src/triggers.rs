//! Trigger predicates used as classifiers: a minimised violation is attributed to an
//! open known finding iff the finding's oracle matches and its predicate holds on the
//! minimised history. Everything else is reported as a VIOLATION.
use crate::sup::Finding;
use serde_json::Value;

fn events_text(replay: &Value) -> Vec<String> {
    replay
        .get("events")
        .and_then(|e| e.as_array())
        .map(|a| a.iter().map(|e| e.to_string()).collect())
        .unwrap_or_default()
}

/// Does the named predicate hold on this (minimised) replay?
pub fn holds(name: &str, _class: &str, detail: &str, replay: &Value) -> bool {
    let evs = events_text(replay);
    let any = |needle: &str| evs.iter().any(|e| e.contains(needle));
    match name {
        "panic_at" => true, // refined by `detail_contains` of the finding itself
        "history_contains_vacuum" => any("\"Vacuum\""),
        "history_contains_analyze" => any("\"Analyze\""),
        "history_contains_alter" => any("\"Alter\""),
        "history_contains_update" => any("\"Update\""),
        "update_inside_session" => evs.iter().any(|e| e.contains("\"Exec\"") && e.contains("\"Update\"")),
        "drop_table_inside_session" => evs.iter().any(|e| e.contains("\"Exec\"") && e.contains("\"DropTable\"")),
        _ => {
            let _ = detail;
            false
        }
    }
}

/// A violation is attributed to an open finding only if its (minimised) history trips the guard
/// that is the finding's trigger predicate. Generated histories never trip their guards and the
/// minimiser preserves that, so for generated cases this never fires: open findings are kept out
/// by restricting inputs, not by explaining violations away afterwards. (An earlier version
/// matched broad predicates such as "history contains ALTER" and swallowed a seeded change.)
pub fn classify(prop: &str, class: &str, _detail: &str, replay: &Value, findings: &[Finding]) -> Option<String> {
    let events: Vec<crate::stmt::Event> = replay.get("events").and_then(|e| serde_json::from_value(e.clone()).ok())?;
    for f in findings {
        if f.status != "open" || f.property != prop || f.oracle != class {
            continue;
        }
        let Some(t) = &f.trigger else { continue };
        if crate::guards::first_violation(&events, std::slice::from_ref(t)).is_some() {
            return Some(f.id.clone());
        }
    }
    None
}

#[allow(dead_code)]
pub fn classify_old(prop: &str, class: &str, detail: &str, replay: &Value, findings: &[Finding]) -> Option<String> {
    for f in findings {
        if f.status != "open" || f.property != prop || f.oracle != class {
            continue;
        }
        let Some(t) = &f.trigger else { continue };
        // "name" or "name:substring-of-detail"
        let (name, needle) = match t.split_once(':') {
            Some((n, s)) => (n, Some(s)),
            None => (t.as_str(), None),
        };
        if let Some(s) = needle {
            if !detail.contains(s) {
                continue;
            }
        }
        if holds(name, class, detail, replay) {
            return Some(f.id.clone());
        }
    }
    None
}
