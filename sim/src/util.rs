//! Small shared utilities: PRNG, hashing, scratch directories, panic bookkeeping.
use std::path::{Path, PathBuf};
use std::sync::Mutex;
use std::sync::atomic::{AtomicU64, Ordering};

/// SplitMix64: every choice of a run derives from one of these.
#[derive(Clone, Debug)]
pub struct Rng(pub u64);

impl Rng {
    pub fn new(seed: u64) -> Self {
        Rng(seed)
    }
    pub fn next(&mut self) -> u64 {
        self.0 = self.0.wrapping_add(0x9E3779B97F4A7C15);
        let mut z = self.0;
        z = (z ^ (z >> 30)).wrapping_mul(0xBF58476D1CE4E5B9);
        z = (z ^ (z >> 27)).wrapping_mul(0x94D049BB133111EB);
        z ^ (z >> 31)
    }
    /// uniform in 0..n (n > 0)
    pub fn below(&mut self, n: u64) -> u64 {
        self.next() % n
    }
    pub fn range(&mut self, lo: u64, hi_incl: u64) -> u64 {
        lo + self.below(hi_incl - lo + 1)
    }
    pub fn chance(&mut self, pct: u64) -> bool {
        self.below(100) < pct
    }
    pub fn pick<'a, T>(&mut self, xs: &'a [T]) -> &'a T {
        &xs[self.below(xs.len() as u64) as usize]
    }
    pub fn fork(&mut self) -> Rng {
        Rng(self.next())
    }
}

pub fn mix(seed: u64, tag: &str, i: u64) -> u64 {
    let mut h: u64 = 0xcbf29ce484222325;
    for b in tag.bytes() {
        h = (h ^ b as u64).wrapping_mul(0x100000001b3);
    }
    let mut r = Rng(seed ^ h.rotate_left(17) ^ i.wrapping_mul(0xD6E8FEB86659FD93));
    r.next();
    r.next()
}

pub fn fnv(h: &mut u64, bytes: &[u8]) {
    for b in bytes {
        *h = (*h ^ *b as u64).wrapping_mul(0x100000001b3);
    }
}

pub fn fnv_str(s: &str) -> u64 {
    let mut h = 0xcbf29ce484222325u64;
    fnv(&mut h, s.as_bytes());
    h
}

/// Scratch root: tmpfs if present (O_DIRECT works there), else TMPDIR.
pub fn scratch_root() -> PathBuf {
    let base = if Path::new("/dev/shm").is_dir() {
        PathBuf::from("/dev/shm")
    } else {
        std::env::temp_dir()
    };
    base.join(format!("axsim-{}", std::process::id()))
}

static DIR_CTR: AtomicU64 = AtomicU64::new(0);

pub fn fresh_dir(tag: &str) -> PathBuf {
    let d = scratch_root().join(format!("{tag}-{}", DIR_CTR.fetch_add(1, Ordering::Relaxed)));
    let _ = std::fs::remove_dir_all(&d);
    std::fs::create_dir_all(&d).expect("create scratch dir");
    d
}

pub fn cleanup_scratch() {
    let _ = std::fs::remove_dir_all(scratch_root());
}

/// Panics observed in any thread of this process (engine workers included).
pub static PANICS: Mutex<Vec<String>> = Mutex::new(Vec::new());

pub fn install_panic_hook() {
    std::panic::set_hook(Box::new(|info| {
        let loc = info
            .location()
            .map(|l| format!("{}:{}", l.file().rsplit("/src/").next().unwrap_or(l.file()), l.line()))
            .unwrap_or_default();
        let msg = if let Some(s) = info.payload().downcast_ref::<&str>() {
            s.to_string()
        } else if let Some(s) = info.payload().downcast_ref::<String>() {
            s.clone()
        } else {
            String::new()
        };
        let first = msg.lines().next().unwrap_or("").chars().take(160).collect::<String>();
        if std::env::var("AXSIM_STDERR").is_ok() {
            eprintln!("PANIC at {loc}: {first}");
            if std::env::var("AXSIM_BT").is_ok() {
                eprintln!("{}", std::backtrace::Backtrace::force_capture());
            }
        }
        PANICS
            .lock()
            .unwrap_or_else(|e| e.into_inner())
            .push(format!("{loc}: {first}"));
    }));
}

pub fn take_panics() -> Vec<String> {
    std::mem::take(&mut *PANICS.lock().unwrap_or_else(|e| e.into_inner()))
}

pub fn panic_count() -> usize {
    PANICS.lock().unwrap_or_else(|e| e.into_inner()).len()
}

/// Silence the engine's own prints: redirect fd 1 and 2 to /dev/null and return a
/// handle on the original stdout for the harness's protocol lines.
pub fn steal_stdout() -> std::fs::File {
    use std::os::fd::FromRawFd;
    unsafe {
        let saved = libc_dup(1);
        let null = std::fs::OpenOptions::new().write(true).open("/dev/null").unwrap();
        use std::os::fd::AsRawFd;
        libc_dup2(null.as_raw_fd(), 1);
        if std::env::var("AXSIM_STDERR").is_err() {
            libc_dup2(null.as_raw_fd(), 2);
        }
        std::fs::File::from_raw_fd(saved)
    }
}

unsafe extern "C" {
    #[link_name = "dup"]
    fn libc_dup(fd: i32) -> i32;
    #[link_name = "dup2"]
    fn libc_dup2(a: i32, b: i32) -> i32;
}

/// Descriptors currently open in this process.
pub fn open_fds() -> std::collections::BTreeSet<i32> {
    let mut s = std::collections::BTreeSet::new();
    if let Ok(rd) = std::fs::read_dir("/proc/self/fd") {
        for e in rd.flatten() {
            if let Some(n) = e.file_name().to_str().and_then(|x| x.parse::<i32>().ok()) {
                s.insert(n);
            }
        }
    }
    // the directory handle used for the listing shows up in it; drop whatever is closed by now
    unsafe extern "C" {
        fn fcntl(fd: i32, cmd: i32, ...) -> i32;
    }
    s.retain(|fd| unsafe { fcntl(*fd, 1) } != -1);
    s
}

/// Close every descriptor that is not in `keep`. Used after a run that simulated process death by
/// forgetting engine handles (their `File`s are never dropped, so nothing else will close them and
/// nothing can close them twice); without this a worker runs out of descriptors after ~1500 runs.
pub fn close_fds_except(keep: &std::collections::BTreeSet<i32>) -> u64 {
    unsafe extern "C" {
        fn close(fd: i32) -> i32;
    }
    let mut n = 0;
    for fd in open_fds() {
        if !keep.contains(&fd) {
            // the read_dir handle itself is already gone by now (open_fds returned)
            unsafe {
                close(fd);
            }
            n += 1;
        }
    }
    n
}
