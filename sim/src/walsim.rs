//! E3a: write-ahead log simulator over the facade. Appends with sizes drawn to land on every
//! boundary, interleaved with force / close+reopen / truncate / reads with varying read-ahead,
//! against a vector model with a "forced up to" watermark; then a crash at EVERY prefix of
//! the recorded file mutations.
use crate::crashsim::{Image, is_mutation};
use crate::run::RunResult;
use crate::sqlsim::Violation;
use crate::util::{self, Rng};
use axmosdb::verif::facade::wal::{Rec, Wal};
use axmosdb::verif::io as tap;
use serde::{Deserialize, Serialize};
use std::collections::BTreeMap;

#[derive(Clone, Debug, Serialize, Deserialize, PartialEq)]
pub enum WalOp {
    Append { kind: u8, tid: u64, undo: usize, redo: usize, fill: u8 },
    Force,
    Reopen,
    Truncate,
    Read { ahead: usize },
}

impl WalOp {
    pub fn short(&self) -> String {
        match self {
            WalOp::Append { kind, tid, undo, redo, .. } => format!("append kind={kind} tid={tid} undo={undo} redo={redo}"),
            WalOp::Force => "force".into(),
            WalOp::Reopen => "close+reopen".into(),
            WalOp::Truncate => "truncate".into(),
            WalOp::Read { ahead } => format!("read ahead={ahead}"),
        }
    }
}

#[derive(Clone, Debug, Serialize, Deserialize)]
pub struct WalReplay {
    pub property: String,
    pub engine: String,
    pub seed: u64,
    pub crash: bool,
    pub events: Vec<WalOp>,
    #[serde(default)]
    pub violation: Option<Violation>,
}

const BLOCK: usize = 40960;

pub fn gen_case(verif_seed: u64, idx: u64) -> WalReplay {
    let seed = util::mix(verif_seed, "C17", idx);
    let mut rng = Rng::new(seed);
    let long = rng.chance(20);
    let n = rng.range(4, if long { 160 } else { 50 }) as usize;
    // swarm: this run's size classes and operation weights
    let w_force = rng.range(5, 30);
    let w_reopen = rng.range(0, 12);
    let w_trunc = rng.range(0, 8);
    let w_read = rng.range(5, 25);
    let big = rng.chance(60);
    let mut ops = vec![];
    let mut tid = 1u64;
    // the reader is only ever used on a log whose block zero is on disk (recovery after open):
    // reads are generated only once a force or a close has happened since creation / truncation
    let mut on_disk = false;
    for _ in 0..n {
        let r = rng.below(100 + w_force + w_reopen + w_trunc + w_read);
        if r < 100 {
            let (u, rd) = match rng.below(if big { 8 } else { 4 }) {
                0 => (0, 0),
                1 => (rng.below(64) as usize, rng.below(64) as usize),
                2 => (rng.below(400) as usize, rng.below(400) as usize),
                3 => (0, rng.below(3000) as usize),
                4 => (rng.below(6000) as usize, rng.below(6000) as usize),
                5 => {
                    // close to one block, on both sides of the advertised maximum record size: a record
                    // over it must be refused without any effect on the log (finding W1, repaired)
                    let total = BLOCK - rng.below(900) as usize;
                    let u = rng.below(total as u64 / 2) as usize;
                    (u, total - u)
                }
                6 => (rng.below(20000) as usize, rng.below(20000) as usize),
                _ => (rng.below(1500) as usize, 0),
            };
            if rng.chance(30) {
                tid += 1;
            }
            let kind = *rng.pick(&[0x00u8, 0x01, 0x02, 0x03, 0x06, 0x07, 0x08, 0x09, 0x0A, 0x0B]);
            ops.push(WalOp::Append { kind, tid, undo: u, redo: rd, fill: rng.below(251) as u8 });
        } else if r < 100 + w_force {
            ops.push(WalOp::Force);
            on_disk = true;
        } else if r < 100 + w_force + w_reopen {
            ops.push(WalOp::Reopen);
            on_disk = true;
        } else if r < 100 + w_force + w_reopen + w_trunc {
            ops.push(WalOp::Truncate);
            on_disk = false;
        } else if on_disk {
            ops.push(WalOp::Read { ahead: rng.range(1, 6) as usize });
        }
    }
    ops.push(WalOp::Force);
    ops.push(WalOp::Read { ahead: rng.range(1, 6) as usize });
    WalReplay { property: "C17".into(), engine: "E3a-walsim".into(), seed, crash: true, events: ops, violation: None }
}

fn payload(len: usize, fill: u8, salt: u8) -> Vec<u8> {
    (0..len).map(|i| fill.wrapping_add(salt).wrapping_add((i % 7) as u8)).collect()
}

fn show_recs(v: &[Rec]) -> String {
    format!("[{}]", v.iter().map(|r| format!("lsn{}:t{}:k{}:{}+{}", r.lsn, r.tid, r.kind, r.undo.len(), r.redo.len())).collect::<Vec<_>>().join(" "))
}

/// first difference between what was read and the expected list
fn diff(got: &[Rec], want: &[Rec]) -> String {
    for i in 0..got.len().max(want.len()) {
        match (got.get(i), want.get(i)) {
            (Some(a), Some(b)) if a == b => continue,
            (Some(a), Some(b)) => {
                return format!("record #{i}: read lsn={} tid={} kind={} undo={}B redo={}B{}, appended lsn={} tid={} kind={} undo={}B redo={}B", a.lsn, a.tid, a.kind, a.undo.len(), a.redo.len(), if a.undo != b.undo || a.redo != b.redo { " (payload differs)" } else { "" }, b.lsn, b.tid, b.kind, b.undo.len(), b.redo.len());
            }
            (Some(a), None) => return format!("record #{i} (lsn={} tid={}) was read but never appended / not expected; {} read, {} expected", a.lsn, a.tid, got.len(), want.len()),
            (None, Some(b)) => return format!("record #{i} (lsn={} tid={}) is missing; {} read, {} expected", b.lsn, b.tid, got.len(), want.len()),
            (None, None) => break,
        }
    }
    "?".into()
}

pub fn run_case(case: &WalReplay, idx: u64) -> RunResult {
    let fds = util::open_fds();
    let r = run_case_inner(case, idx);
    util::close_fds_except(&fds);
    r
}

fn run_case_inner(case: &WalReplay, idx: u64) -> RunResult {
    let mut counters: BTreeMap<String, u64> = BTreeMap::new();
    let mut bump = |k: &str, n: u64| *counters.entry(k.to_string()).or_insert(0) += n;
    let mut fp = 0xcbf29ce484222325u64;
    let dir = util::fresh_dir("e3a");
    let path = dir.join("axmos.log");
    let mut viol: Option<Violation> = None;
    tap::start(&dir);
    let mut wal = match Wal::create(&path) {
        Ok(w) => w,
        Err(e) => {
            tap::stop();
            return RunResult { idx, seed: case.seed, violation: Some(Violation { oracle: "O-wal".into(), event: 0, detail: format!("create failed: {e}") }), counters, fingerprint: 0, steps: 0, replay: None, hazards: vec![] };
        }
    };
    tap::mark("created");
    // model
    let mut appended: Vec<Rec> = vec![];
    let mut forced: usize = 0;
    // per acknowledged op: (appended list snapshot id, forced watermark, epoch) — for crash judging
    let mut epochs: Vec<Vec<Rec>> = vec![vec![]];
    let mut history: Vec<(usize, usize, usize)> = vec![(0, 0, 0)]; // (epoch, appended_len, forced) after i acks
    let maxrec = wal.max_record_size();
    let mut on_disk = false;
    for (i, op) in case.events.iter().enumerate() {
        tap::mark(&format!("s {i}"));
        let mut line = op.short();
        match op {
            WalOp::Append { kind, tid, undo, redo, fill } => {
                let u = payload(*undo, *fill, 0);
                let r = payload(*redo, *fill, 101);
                match wal.push(*kind, *tid, &u, &r) {
                    Ok(lsn) => {
                        if let Some(last) = appended.last() {
                            if lsn <= last.lsn {
                                viol = Some(Violation { oracle: "O-wal".into(), event: i, detail: format!("append returned LSN {lsn}, not greater than the previous record's {}", last.lsn) });
                            }
                        }
                        appended.push(Rec { lsn, tid: *tid, kind: *kind, undo: u, redo: r });
                        bump("appends", 1);
                        if undo + redo == 0 {
                            bump("appends_empty_payload", 1);
                        }
                        if undo + redo > 30000 {
                            bump("appends_near_block_size", 1);
                        }
                        line.push_str(&format!(" => lsn {lsn}"));
                    }
                    Err(e) => {
                        bump("append_rejected", 1);
                        line.push_str(&format!(" => ERR {e}"));
                        // a record that fits the advertised per-block maximum must be accepted
                        let total = undo + redo;
                        if total + 256 < maxrec {
                            viol = Some(Violation { oracle: "O-wal".into(), event: i, detail: format!("append of {total} payload bytes (advertised maximum record size {maxrec}) was rejected: {e}") });
                        }
                    }
                }
            }
            WalOp::Force => match wal.force() {
                Ok(()) => {
                    forced = appended.len();
                    on_disk = true;
                    bump("forces", 1);
                }
                Err(e) => viol = Some(Violation { oracle: "O-wal".into(), event: i, detail: format!("force failed: {e}") }),
            },
            WalOp::Reopen => {
                wal.close();
                forced = appended.len(); // closing forces the log
                on_disk = true;
                bump("reopens", 1);
                match Wal::open(&path) {
                    Ok(w) => wal = w,
                    Err(e) => {
                        viol = Some(Violation { oracle: "O-wal".into(), event: i, detail: format!("open after clean close failed: {e}") });
                        tap::stop();
                        let _ = std::fs::remove_dir_all(&dir);
                        return finish(case, idx, viol, counters, fp);
                    }
                }
            }
            WalOp::Truncate => match wal.truncate() {
                Ok(()) => {
                    appended.clear();
                    forced = 0;
                    on_disk = false;
                    epochs.push(vec![]);
                    bump("truncations", 1);
                }
                Err(e) => viol = Some(Violation { oracle: "O-wal".into(), event: i, detail: format!("truncate failed: {e}") }),
            },
            WalOp::Read { .. } if !on_disk || forced != appended.len() => {
                // precondition of the reader not met: the engine reads its log only during recovery,
                // i.e. when block zero is on disk and nothing is pending in memory. Skipped (not
                // failed) so that minimisation cannot slip into it. The "forced watermark" side of the
                // property is judged at the crash points instead.
                bump("reads_skipped_not_on_disk", 1);
            }
            WalOp::Read { ahead } => match wal.read_all(*ahead) {
                Ok(got) => {
                    bump("reads", 1);
                    let want = &appended[..forced];
                    if got != want {
                        viol = Some(Violation { oracle: "O-wal".into(), event: i, detail: format!("read-ahead {ahead}: {}; read {}", diff(&got, want), if got.len() <= 12 { show_recs(&got) } else { format!("{} records", got.len()) }) });
                    } else if forced > 0 {
                        bump("reads_nonempty_correct", 1);
                    }
                    line.push_str(&format!(" => {} records", got.len()));
                }
                Err(e) => viol = Some(Violation { oracle: "O-wal".into(), event: i, detail: format!("read failed: {e}") }),
            },
        }
        util::fnv(&mut fp, line.as_bytes());
        *epochs.last_mut().unwrap() = appended.clone();
        tap::mark(&format!("a {i}"));
        history.push((epochs.len() - 1, appended.len(), forced));
        if !util::take_panics().is_empty() && viol.is_none() {
            viol = Some(Violation { oracle: "O-wal".into(), event: i, detail: "panic inside the log".into() });
        }
        if viol.is_some() {
            break;
        }
    }
    let log = tap::stop();
    wal.leak();
    let mut steps = case.events.len() as u64;
    // crash at every prefix
    if viol.is_none() && case.crash {
        let dir_b = util::fresh_dir("e3b");
        let mut img = Image::default();
        let mut acked = 0usize;
        let mut inflight: Option<usize> = None;
        let created_at = log.iter().position(|e| e.kind == tap::Kind::Mark && e.note == "created").unwrap_or(0);
        for k in 1..=log.len() {
            let e = &log[k - 1];
            if e.kind == tap::Kind::Mark {
                if let Some(x) = e.note.strip_prefix("a ") {
                    acked = x.parse::<usize>().unwrap() + 1;
                    inflight = None;
                } else if let Some(x) = e.note.strip_prefix("s ") {
                    inflight = Some(x.parse().unwrap());
                }
                continue;
            }
            if !is_mutation(e) {
                continue;
            }
            img.apply(e);
            util::fnv(&mut fp, format!("{:?} {} {}\n", e.kind, e.off, e.data.len()).as_bytes());
            if k <= created_at {
                continue;
            }
            steps += 1;
            bump("crash_points", 1);
            img.write_out(&dir_b);
            let (ep, _alen, fw) = history[acked];
            let during = inflight.map(|j| format!(" during op {j} [{}]", case.events[j].short())).unwrap_or_default();
            let at = format!("crash after I/O #{k} ({:?} off={} len={}){during}, {acked} ops acknowledged", e.kind, e.off, e.data.len());
            let got = match Wal::open(&dir_b.join("axmos.log")) {
                Ok(mut w) => {
                    let r = w.read_all(3);
                    w.leak();
                    match r {
                        Ok(g) => g,
                        Err(er) => {
                            viol = Some(Violation { oracle: "O-wal-crash".into(), event: inflight.unwrap_or(acked.saturating_sub(1)), detail: format!("{at}: reading the reopened log failed: {er}") });
                            break;
                        }
                    }
                }
                Err(er) => {
                    viol = Some(Violation { oracle: "O-wal-crash".into(), event: inflight.unwrap_or(acked.saturating_sub(1)), detail: format!("{at}: reopening the log failed: {er}") });
                    break;
                }
            };
            // candidates: the epoch current at the last ack, extended by the in-flight append if any; or,
            // if a truncation is in flight, the empty log
            let mut cand: Vec<Rec> = epochs[ep][..history[acked].1.min(epochs[ep].len())].to_vec();
            let mut ok_empty = false;
            if let Some(j) = inflight {
                match &case.events[j] {
                    WalOp::Append { .. } => {
                        // the in-flight record, if it was accepted, follows in the same epoch
                        let after = history.get(acked + 1).copied();
                        if let Some((ep2, alen2, _)) = after {
                            if ep2 == ep && alen2 > cand.len() {
                                cand = epochs[ep][..alen2.min(epochs[ep].len())].to_vec();
                            }
                        }
                    }
                    WalOp::Truncate => ok_empty = true,
                    _ => {}
                }
            }
            let is_prefix = got.len() <= cand.len() && got[..] == cand[..got.len()];
            let good = (is_prefix && got.len() >= fw) || (ok_empty && got.is_empty());
            if good {
                bump("crash_points_correct", 1);
            } else {
                let why = if !is_prefix { diff(&got, &cand) } else { format!("only {} of the {fw} records covered by an acknowledged force were read back", got.len()) };
                viol = Some(Violation { oracle: "O-wal-crash".into(), event: inflight.unwrap_or(acked.saturating_sub(1)), detail: format!("{at}: {why}") });
                break;
            }
        }
        let _ = std::fs::remove_dir_all(&dir_b);
    }
    let _ = std::fs::remove_dir_all(&dir);
    let _ = util::take_panics();
    let mut r = finish(case, idx, viol, counters, fp);
    r.steps = steps;
    r
}

fn finish(case: &WalReplay, idx: u64, viol: Option<Violation>, counters: BTreeMap<String, u64>, fp: u64) -> RunResult {
    let mut res = RunResult { idx, seed: case.seed, violation: viol.clone(), counters, fingerprint: fp, steps: case.events.len() as u64, replay: None, hazards: vec![] };
    if viol.is_some() {
        let mut c = case.clone();
        c.violation = viol;
        res.replay = Some(serde_json::to_value(&c).unwrap());
    }
    res
}

pub fn sample_of(case: &WalReplay) -> serde_json::Value {
    serde_json::json!({"seed": case.seed, "ops": case.events.iter().map(|e| e.short()).collect::<Vec<_>>()})
}
