//! E5: wire-protocol simulator. A simulated byte stream (`SimPipe`) with PRNG-chosen
//! behaviour per call — fragment sizes from one byte to everything, short writes,
//! `Interrupted`, EOF at any offset — carries every Request/Response variant; garbage,
//! mutated and truncated frames are fed to the frame reader and the decoders.
use crate::run::RunResult;
use crate::sqlsim::Violation;
use crate::util::{self, Rng};
use axmosdb::tcp::{self, Request, Response, TcpError};
use serde::{Deserialize, Serialize};
use std::collections::{BTreeMap, VecDeque};
use std::io::{self, Read, Write};

/// One simulated half-duplex byte stream. Every call draws its behaviour from the script.
pub struct SimPipe {
    pub buf: VecDeque<u8>,
    rng: Rng,
    pub eintr_pct: u64,
    pub frag: u64, // 0 = whole, 1 = tiny fragments, 2 = random
    pub closed: bool,
    pub stats: BTreeMap<&'static str, u64>,
}

impl SimPipe {
    pub fn new(seed: u64, eintr_pct: u64, frag: u64) -> Self {
        SimPipe { buf: VecDeque::new(), rng: Rng::new(seed), eintr_pct, frag, closed: false, stats: BTreeMap::new() }
    }
    fn chunk(&mut self, max: usize) -> usize {
        if max <= 1 {
            return max;
        }
        match self.frag {
            0 => max,
            1 => 1 + self.rng.below(3.min(max as u64)) as usize,
            _ => match self.rng.below(4) {
                0 => 1,
                1 => 1 + self.rng.below(max as u64) as usize,
                2 => (max / 2).max(1),
                _ => max,
            },
        }
    }
    fn bump(&mut self, k: &'static str) {
        *self.stats.entry(k).or_insert(0) += 1;
    }
}

impl Write for SimPipe {
    fn write(&mut self, data: &[u8]) -> io::Result<usize> {
        if data.is_empty() {
            return Ok(0);
        }
        if self.rng.below(100) < self.eintr_pct {
            self.bump("write_eintr");
            return Err(io::Error::from(io::ErrorKind::Interrupted));
        }
        let n = self.chunk(data.len());
        if n < data.len() {
            self.bump("short_writes");
        }
        self.buf.extend(&data[..n]);
        self.bump("writes");
        Ok(n)
    }
    fn flush(&mut self) -> io::Result<()> {
        Ok(())
    }
}

impl Read for SimPipe {
    fn read(&mut self, out: &mut [u8]) -> io::Result<usize> {
        if out.is_empty() {
            return Ok(0);
        }
        if self.buf.is_empty() {
            self.bump("eof_reads");
            return Ok(0); // peer closed
        }
        if self.rng.below(100) < self.eintr_pct {
            self.bump("read_eintr");
            return Err(io::Error::from(io::ErrorKind::Interrupted));
        }
        let avail = self.buf.len().min(out.len());
        let n = self.chunk(avail);
        if n < out.len() {
            self.bump("fragmented_reads");
        }
        for b in out.iter_mut().take(n) {
            *b = self.buf.pop_front().unwrap();
        }
        self.bump("reads");
        Ok(n)
    }
}

#[derive(Clone, Debug, Serialize, Deserialize, PartialEq)]
pub enum Msg {
    Req(String, Vec<String>, u64, u64), // variant name, strings, f64 bits, usize
    Resp(String, Vec<String>, Vec<Vec<String>>, Vec<u64>),
}

#[derive(Clone, Debug, Serialize, Deserialize)]
pub enum WireOp {
    /// send these messages back to back through one pipe, receive them all
    RoundTrip { msgs: Vec<Msg>, pipe_seed: u64, eintr: u64, frag: u64 },
    /// send one message, cut the stream after `keep` bytes, receiver must report an error
    Truncate { msg: Msg, keep_permille: u64, pipe_seed: u64 },
    /// raw bytes fed to the frame reader + decoder (as a request and as a response)
    Garbage { bytes: Vec<u8>, pipe_seed: u64 },
    /// a valid frame with some bytes changed
    Mutate { msg: Msg, flips: Vec<(u64, u8)>, pipe_seed: u64 },
    /// structure-aware damage: bytes inside the body replaced by invalid UTF-8 lead/continuation
    /// bytes, the body optionally cut short, and the length prefix recomputed so that the frame
    /// reader accepts the frame and the decoder sees the damage
    Mangle { msg: Msg, bad: Vec<(u64, u8)>, cut: Option<u64>, pipe_seed: u64 },
    /// a message whose encoding is exactly `delta` bytes away from MAX_MESSAGE_SIZE
    Boundary { delta: i64, pipe_seed: u64 },
}

#[derive(Clone, Debug, Serialize, Deserialize)]
pub struct WireReplay {
    pub property: String,
    pub engine: String,
    pub seed: u64,
    pub events: Vec<WireOp>,
    #[serde(default)]
    pub violation: Option<Violation>,
}

fn gen_string(rng: &mut Rng, huge_ok: bool) -> String {
    match rng.below(if huge_ok { 12 } else { 10 }) {
        0 => String::new(),
        1 => "a".into(),
        2 | 3 => (0..rng.range(1, 40)).map(|_| (b'a' + rng.below(26) as u8) as char).collect(),
        4 => "SELECT * FROM t WHERE s = 'é—ü✓ 漢字 \u{1F600}'".into(),
        5 => (0..rng.range(1, 30)).map(|_| char::from_u32(0x80 + rng.below(0x700) as u32).unwrap_or('ß')).collect(),
        6 => "\0\n\r\t'\"\\".into(),
        7 => "x".repeat(rng.range(200, 5000) as usize),
        8 => "NULL".into(),
        9 => (0..rng.range(1, 2000)).map(|_| char::from_u32(0x4e00 + rng.below(0x500) as u32).unwrap()).collect(),
        _ => "y".repeat(rng.range(100_000, 3_000_000) as usize),
    }
}

pub fn gen_msg(rng: &mut Rng) -> Msg {
    let huge = rng.chance(2);
    if rng.chance(50) {
        let v = *rng.pick(&["Create", "Open", "Sql", "Begin", "Rollback", "Commit", "Explain", "Analyze", "Vacuum", "Close", "Ping", "Shutdown"]);
        let bits = match rng.below(6) {
            0 => 0f64.to_bits(),
            1 => 1f64.to_bits(),
            2 => f64::NAN.to_bits(),
            3 => f64::INFINITY.to_bits(),
            4 => (-0.0f64).to_bits(),
            _ => (rng.below(1000) as f64 / 1000.0).to_bits(),
        };
        let n = match rng.below(4) {
            0 => 0,
            1 => u32::MAX as u64,
            2 => u64::MAX,
            _ => rng.below(100000),
        };
        Msg::Req(v.into(), vec![gen_string(rng, huge)], bits, n)
    } else {
        let v = *rng.pick(&["Ok", "Error", "Rows", "Rows", "Rows", "SessionStarted", "SessionEnd", "RowsAffected", "Ddl", "Explain", "VacuumComplete", "Pong", "Goodbye", "ShuttingDown"]);
        let ncols = match rng.below(6) {
            0 => 0,
            1 => 1,
            _ => rng.range(1, 8),
        } as usize;
        let nrows = if ncols == 0 { 0 } else { match rng.below(6) { 0 => 0, 1 => 1, 2 => rng.range(50, 400), _ => rng.range(1, 12) } } as usize;
        let cols: Vec<String> = (0..ncols).map(|_| gen_string(rng, false).chars().take(40).collect()).collect();
        let data: Vec<Vec<String>> = (0..nrows).map(|_| (0..ncols).map(|_| if huge && rng.chance(1) { gen_string(rng, true) } else { gen_string(rng, false).chars().take(200).collect() }).collect()).collect();
        let nums = vec![*rng.pick(&[0u64, 1, u32::MAX as u64, u64::MAX, 12345]), rng.below(1 << 40), rng.below(1000)];
        Msg::Resp(v.into(), if v == "Rows" { cols } else { vec![gen_string(rng, huge)] }, data, nums)
    }
}

fn to_request(m: &Msg) -> Option<Request> {
    let Msg::Req(v, s, bits, n) = m else { return None };
    let s0 = s.first().cloned().unwrap_or_default();
    Some(match v.as_str() {
        "Create" => Request::Create(s0),
        "Open" => Request::Open(s0),
        "Sql" => Request::Sql(s0),
        "Begin" => Request::Begin,
        "Rollback" => Request::Rollback,
        "Commit" => Request::Commit,
        "Explain" => Request::Explain(s0),
        "Analyze" => Request::Analyze { sample_rate: f64::from_bits(*bits), max_sample_rows: *n as usize },
        "Vacuum" => Request::Vacuum,
        "Close" => Request::Close,
        "Ping" => Request::Ping,
        _ => Request::Shutdown,
    })
}

fn to_response(m: &Msg) -> Option<Response> {
    let Msg::Resp(v, s, data, nums) = m else { return None };
    let s0 = s.first().cloned().unwrap_or_default();
    Some(match v.as_str() {
        "Ok" => Response::Ok(s0),
        "Error" => Response::Error(s0),
        "Rows" => Response::Rows { columns: s.clone(), data: data.clone() },
        "SessionStarted" => Response::SessionStarted,
        "SessionEnd" => Response::SessionEnd,
        "RowsAffected" => Response::RowsAffected(nums[0]),
        "Ddl" => Response::Ddl(s0),
        "Explain" => Response::Explain(s0),
        "VacuumComplete" => Response::VacuumComplete { tables_vacuumed: nums[0] as usize, bytes_freed: nums[1] as usize, transactions_cleaned: nums[2] as usize },
        "Pong" => Response::Pong,
        "Goodbye" => Response::Goodbye,
        _ => Response::ShuttingDown,
    })
}

/// canonical text of a message value (f64 by bits, so NaN compares equal to itself)
fn canon_req(r: &Request) -> String {
    match r {
        Request::Analyze { sample_rate, max_sample_rows } => format!("Analyze({:016x},{})", sample_rate.to_bits(), max_sample_rows),
        x => format!("{x:?}"),
    }
}
fn canon_resp(r: &Response) -> String {
    format!("{r:?}")
}

pub fn gen_case(verif_seed: u64, idx: u64) -> WireReplay {
    let seed = util::mix(verif_seed, "C20", idx);
    let mut rng = Rng::new(seed);
    let n = rng.range(1, 6);
    let mut ops = vec![];
    for _ in 0..n {
        let ps = rng.next();
        ops.push(match rng.below(10) {
            0..=4 => {
                let k = rng.range(1, 4);
                WireOp::RoundTrip { msgs: (0..k).map(|_| gen_msg(&mut rng)).collect(), pipe_seed: ps, eintr: *rng.pick(&[0, 0, 10, 40]), frag: rng.below(3) }
            }
            5 | 6 => WireOp::Truncate { msg: gen_msg(&mut rng), keep_permille: rng.below(1000), pipe_seed: ps },
            7 => {
                let len = match rng.below(4) { 0 => rng.below(8), 1 => rng.below(64), _ => rng.below(600) } as usize;
                let mut bytes: Vec<u8> = (0..len).map(|_| rng.below(256) as u8).collect();
                // often make the length prefix plausible so that the decoder is reached
                if bytes.len() >= 6 && rng.chance(70) {
                    let body = (bytes.len() - 4) as u32;
                    bytes[..4].copy_from_slice(&body.to_le_bytes());
                    bytes[4] = 1; // protocol version
                    if rng.chance(50) {
                        bytes[5] = rng.below(13) as u8;
                    }
                }
                if rng.chance(10) {
                    // oversize prefix
                    let big = if rng.chance(50) { u32::MAX } else { 16 * 1024 * 1024 + 1 + rng.below(1000) as u32 };
                    bytes.splice(0..bytes.len().min(4), big.to_le_bytes());
                }
                WireOp::Garbage { bytes, pipe_seed: ps }
            }
            8 if rng.chance(4) => WireOp::Boundary { delta: *rng.pick(&[0i64, -1, 1, -2]), pipe_seed: ps },
            8 => {
                let nb = rng.range(0, 4);
                // the Rows response is the only message with several strings: damage it most often
                let mut m = gen_msg(&mut rng);
                if rng.chance(70) {
                    for _ in 0..20 {
                        if matches!(&m, Msg::Resp(v, _, d, _) if v == "Rows" && !d.is_empty()) {
                            break;
                        }
                        m = gen_msg(&mut rng);
                    }
                }
                WireOp::Mangle {
                    msg: m,
                    bad: (0..nb).map(|_| (rng.next(), *rng.pick(&[0xFFu8, 0x80, 0xC0, 0xE2, 0xF0, 0xBF]))).collect(),
                    cut: if rng.chance(60) { Some(rng.next()) } else { None },
                    pipe_seed: ps,
                }
            }
            _ => {
                let nfl = rng.range(1, 4);
                WireOp::Mutate { msg: gen_msg(&mut rng), flips: (0..nfl).map(|_| (rng.next(), rng.below(256) as u8)).collect(), pipe_seed: ps }
            }
        });
    }
    WireReplay { property: "C20".into(), engine: "E5-wiresim".into(), seed, events: ops, violation: None }
}

/// The framed bytes of a message, or None when its encoding exceeds the 16 MiB cap (the sender
/// refuses such a message; the round-trip oracle checks that refusal, the other operations skip it).
fn encode(m: &Msg) -> Option<Vec<u8>> {
    let mut w: Vec<u8> = vec![];
    let r = match m {
        Msg::Req(..) => tcp::send_request(&mut w, &to_request(m).unwrap()),
        Msg::Resp(..) => tcp::send_response(&mut w, &to_response(m).unwrap()),
    };
    match r {
        Ok(()) => Some(w),
        Err(TcpError::MessageTooLarge(_)) => None,
        Err(e) => panic!("encoding into a Vec failed: {e}"),
    }
}

fn payload_len(m: &Msg) -> usize {
    match m {
        Msg::Req(..) => to_request(m).unwrap().to_bytes().len(),
        Msg::Resp(..) => to_response(m).unwrap().to_bytes().len(),
    }
}

fn err_class(e: &TcpError) -> &'static str {
    match e {
        TcpError::VersionMismatch { .. } => "version",
        TcpError::UnknownCommand(_) => "unknown_command",
        TcpError::UnknownStatus(_) => "unknown_status",
        TcpError::InvalidMessage(_) => "invalid",
        TcpError::Io(_) => "io",
        TcpError::MessageTooLarge(_) => "too_large",
        TcpError::ConnectionClosed => "closed",
    }
}

pub fn run_case(case: &WireReplay, idx: u64) -> RunResult {
    let mut counters: BTreeMap<String, u64> = BTreeMap::new();
    let mut fp = 0xcbf29ce484222325u64;
    let mut viol = None;
    'ops: for (i, op) in case.events.iter().enumerate() {
        let mut bump = |k: &str, n: u64| *counters.entry(k.to_string()).or_insert(0) += n;
        match op {
            WireOp::RoundTrip { msgs, pipe_seed, eintr, frag } => {
                let mut pipe = SimPipe::new(*pipe_seed, *eintr, *frag);
                let mut oversize = vec![false; msgs.len()];
                for (k, m) in msgs.iter().enumerate() {
                    let before = pipe.buf.len();
                    let r = match m {
                        Msg::Req(..) => tcp::send_request(&mut pipe, &to_request(m).unwrap()),
                        Msg::Resp(..) => tcp::send_response(&mut pipe, &to_response(m).unwrap()),
                    };
                    if payload_len(m) > tcp::MAX_MESSAGE_SIZE {
                        // over the cap: the sender must refuse it and put nothing on the stream
                        bump("oversize_refused_by_sender", 1);
                        oversize[k] = true;
                        match r {
                            Err(TcpError::MessageTooLarge(_)) if pipe.buf.len() == before => continue,
                            other => {
                                viol = Some(Violation { oracle: "O-wire".into(), event: i, detail: format!("a message of {} payload bytes (over the cap) was not cleanly refused: {:?}, {} bytes written", payload_len(m), other.map_err(|e| e.to_string()), pipe.buf.len() - before) });
                                break 'ops;
                            }
                        }
                    }
                    if let Err(e) = r {
                        viol = Some(Violation { oracle: "O-wire".into(), event: i, detail: format!("sending a valid message failed: {e}") });
                        break 'ops;
                    }
                }
                for (k, m) in msgs.iter().enumerate() {
                    if oversize[k] {
                        continue;
                    }
                    bump("messages_round_tripped", 1);
                    match m {
                        Msg::Req(..) => {
                            let want = canon_req(&to_request(m).unwrap());
                            match tcp::recv_request(&mut pipe) {
                                Ok(got) if canon_req(&got) == want => {}
                                Ok(got) => {
                                    viol = Some(Violation { oracle: "O-wire".into(), event: i, detail: format!("request received differs from request sent: sent {} got {}", want.chars().take(200).collect::<String>(), canon_req(&got).chars().take(200).collect::<String>()) });
                                    break 'ops;
                                }
                                Err(e) => {
                                    viol = Some(Violation { oracle: "O-wire".into(), event: i, detail: format!("receiving a valid request failed ({}): {e}; sent {}", err_class(&e), want.chars().take(120).collect::<String>()) });
                                    break 'ops;
                                }
                            }
                        }
                        Msg::Resp(..) => {
                            let want = canon_resp(&to_response(m).unwrap());
                            match tcp::recv_response(&mut pipe) {
                                Ok(got) if canon_resp(&got) == want => {}
                                Ok(got) => {
                                    viol = Some(Violation { oracle: "O-wire".into(), event: i, detail: format!("response received differs from response sent: sent {} got {}", want.chars().take(200).collect::<String>(), canon_resp(&got).chars().take(200).collect::<String>()) });
                                    break 'ops;
                                }
                                Err(e) => {
                                    viol = Some(Violation { oracle: "O-wire".into(), event: i, detail: format!("receiving a valid response failed ({}): {e}; sent {}", err_class(&e), want.chars().take(120).collect::<String>()) });
                                    break 'ops;
                                }
                            }
                        }
                    }
                }
                // nothing may be left over and nothing read past the frames
                if !pipe.buf.is_empty() {
                    viol = Some(Violation { oracle: "O-wire".into(), event: i, detail: format!("{} bytes left in the stream after all messages were received", pipe.buf.len()) });
                    break 'ops;
                }
                for (k, v) in &pipe.stats {
                    bump(&format!("pipe_{k}"), *v);
                }
                util::fnv(&mut fp, format!("rt {} {}", msgs.len(), pipe.stats.get("reads").copied().unwrap_or(0)).as_bytes());
            }
            WireOp::Truncate { msg, keep_permille, pipe_seed } => {
                let Some(bytes) = encode(msg) else {
                    bump("oversize_skipped", 1);
                    continue;
                };
                let keep = (bytes.len() as u64 * keep_permille / 1000) as usize;
                let keep = keep.min(bytes.len().saturating_sub(1));
                let mut pipe = SimPipe::new(*pipe_seed, 0, 2);
                pipe.buf.extend(&bytes[..keep]);
                bump("truncated_streams", 1);
                let r = match msg {
                    Msg::Req(..) => tcp::recv_request(&mut pipe).map(|_| ()),
                    Msg::Resp(..) => tcp::recv_response(&mut pipe).map(|_| ()),
                };
                match r {
                    Err(e) => {
                        bump(&format!("truncation_error_{}", err_class(&e)), 1);
                        util::fnv(&mut fp, format!("tr {}", err_class(&e)).as_bytes());
                    }
                    Ok(()) => {
                        viol = Some(Violation { oracle: "O-wire".into(), event: i, detail: format!("a stream cut after {keep} of {} bytes was accepted as a complete message", bytes.len()) });
                        break 'ops;
                    }
                }
            }
            WireOp::Garbage { bytes, pipe_seed } => {
                bump("garbage_streams", 1);
                for as_req in [true, false] {
                    let mut pipe = SimPipe::new(*pipe_seed, 0, 2);
                    pipe.buf.extend(bytes.iter());
                    let r = if as_req { tcp::recv_request(&mut pipe).map(|m| canon_req(&m)) } else { tcp::recv_response(&mut pipe).map(|m| canon_resp(&m)) };
                    match r {
                        Err(e) => bump(&format!("garbage_error_{}", err_class(&e)), 1),
                        Ok(_) => bump("garbage_decoded_as_a_message", 1),
                    }
                }
                // decoders directly, without the frame reader
                let _ = Request::from_bytes(bytes).map(|_| ());
                let _ = Response::from_bytes(bytes).map(|_| ());
                util::fnv(&mut fp, b"gb");
            }
            WireOp::Boundary { delta, pipe_seed } => {
                // Request::Sql encodes as version + command + u32 length + text
                let n = (tcp::MAX_MESSAGE_SIZE as i64 + delta - 6) as usize;
                let req = Request::Sql("q".repeat(n));
                let mut pipe = SimPipe::new(*pipe_seed, 0, 0);
                bump("boundary_size_messages", 1);
                match tcp::send_request(&mut pipe, &req) {
                    Err(e) => {
                        if *delta <= 0 {
                            viol = Some(Violation { oracle: "O-wire".into(), event: i, detail: format!("a message of MAX_MESSAGE_SIZE{delta:+} bytes was refused by the sender: {e}") });
                            break 'ops;
                        }
                        bump("oversize_refused_by_sender", 1);
                    }
                    Ok(()) => {
                        if *delta > 0 {
                            viol = Some(Violation { oracle: "O-wire".into(), event: i, detail: format!("a message of MAX_MESSAGE_SIZE{delta:+} bytes was sent") });
                            break 'ops;
                        }
                        match tcp::recv_request(&mut pipe) {
                            Ok(Request::Sql(t)) if t.len() == n => {}
                            Ok(_) => {
                                viol = Some(Violation { oracle: "O-wire".into(), event: i, detail: format!("a message of MAX_MESSAGE_SIZE{delta:+} bytes was received altered") });
                                break 'ops;
                            }
                            Err(e) => {
                                viol = Some(Violation { oracle: "O-wire".into(), event: i, detail: format!("a message of MAX_MESSAGE_SIZE{delta:+} bytes was sent but the receiver refused it: {e}") });
                                break 'ops;
                            }
                        }
                    }
                }
                util::fnv(&mut fp, format!("bd {delta}").as_bytes());
            }
            WireOp::Mangle { msg, bad, cut, pipe_seed } => {
                let Some(bytes) = encode(msg) else {
                    bump("oversize_skipped", 1);
                    continue;
                };
                let mut body = bytes[4..].to_vec();
                for (pos, val) in bad {
                    if body.len() > 2 {
                        let p = 2 + (*pos as usize) % (body.len() - 2);
                        body[p] = *val;
                    }
                }
                if let Some(c) = cut {
                    if body.len() > 2 {
                        let keep = 2 + (*c as usize) % (body.len() - 2);
                        body.truncate(keep);
                    }
                }
                let mut frame = (body.len() as u32).to_le_bytes().to_vec();
                frame.extend_from_slice(&body);
                bump("mangled_frames", 1);
                let mut pipe = SimPipe::new(*pipe_seed, 0, 2);
                pipe.buf.extend(frame.iter());
                let r = match msg {
                    Msg::Req(..) => tcp::recv_request(&mut pipe).map(|m| canon_req(&m)),
                    Msg::Resp(..) => tcp::recv_response(&mut pipe).map(|m| canon_resp(&m)),
                };
                match r {
                    Err(e) => bump(&format!("mangle_error_{}", err_class(&e)), 1),
                    Ok(_) => bump("mangled_still_decodes", 1),
                }
                util::fnv(&mut fp, b"mg");
            }
            WireOp::Mutate { msg, flips, pipe_seed } => {
                let Some(mut bytes) = encode(msg) else {
                    bump("oversize_skipped", 1);
                    continue;
                };
                for (pos, val) in flips {
                    // bias towards the header (length prefix, version, command, counts)
                    let p = if pos % 3 != 0 { (*pos as usize / 3) % bytes.len().min(24) } else { (*pos as usize) % bytes.len() };
                    bytes[p] = *val;
                }
                bump("mutated_frames", 1);
                let mut pipe = SimPipe::new(*pipe_seed, 0, 2);
                pipe.buf.extend(bytes.iter());
                let r = match msg {
                    Msg::Req(..) => tcp::recv_request(&mut pipe).map(|m| canon_req(&m)),
                    Msg::Resp(..) => tcp::recv_response(&mut pipe).map(|m| canon_resp(&m)),
                };
                match r {
                    Err(e) => bump(&format!("mutation_error_{}", err_class(&e)), 1),
                    Ok(_) => bump("mutation_still_decodes", 1),
                }
                util::fnv(&mut fp, b"mu");
            }
        }
        let p = util::take_panics();
        if !p.is_empty() {
            viol = Some(Violation { oracle: "O-wire".into(), event: i, detail: format!("panic in the protocol code: {}", p.join(" | ")) });
            break;
        }
    }
    let p = util::take_panics();
    if viol.is_none() && !p.is_empty() {
        viol = Some(Violation { oracle: "O-wire".into(), event: 0, detail: format!("panic in the protocol code: {}", p.join(" | ")) });
    }
    let mut res = RunResult { idx, seed: case.seed, violation: viol.clone(), counters, fingerprint: fp, steps: case.events.len() as u64, replay: None, hazards: vec![] };
    if viol.is_some() {
        let mut c = case.clone();
        c.violation = viol;
        res.replay = Some(serde_json::to_value(&c).unwrap());
    }
    res
}

pub fn sample_of(case: &WireReplay) -> serde_json::Value {
    let d: Vec<String> = case
        .events
        .iter()
        .map(|o| match o {
            WireOp::RoundTrip { msgs, eintr, frag, .. } => format!("round-trip {} messages (eintr {eintr}%, fragmentation mode {frag}): {}", msgs.len(), msgs.iter().map(|m| match m { Msg::Req(v, ..) => format!("Request::{v}"), Msg::Resp(v, _, d, _) => format!("Response::{v}[{} rows]", d.len()) }).collect::<Vec<_>>().join(", ")),
            WireOp::Truncate { keep_permille, .. } => format!("truncate a frame at {keep_permille} permille, then EOF"),
            WireOp::Garbage { bytes, .. } => format!("garbage stream of {} bytes", bytes.len()),
            WireOp::Mutate { flips, .. } => format!("valid frame with {} bytes changed", flips.len()),
            WireOp::Mangle { bad, cut, .. } => format!("valid frame with {} invalid-UTF-8 bytes planted{}, length prefix recomputed", bad.len(), if cut.is_some() { " and the body cut short" } else { "" }),
            WireOp::Boundary { delta, .. } => format!("message of MAX_MESSAGE_SIZE{delta:+} bytes"),
        })
        .collect();
    serde_json::json!({"seed": case.seed, "ops": d})
}

/// Limit the address space of this process so that an unbounded allocation aborts it
/// (observed by the supervisor) instead of swapping the machine.
pub fn limit_memory(bytes: u64) {
    #[repr(C)]
    struct Rlimit {
        cur: u64,
        max: u64,
    }
    unsafe extern "C" {
        fn setrlimit(resource: i32, rlim: *const Rlimit) -> i32;
    }
    let r = Rlimit { cur: bytes, max: bytes };
    unsafe {
        setrlimit(9 /* RLIMIT_AS */, &r);
    }
}
