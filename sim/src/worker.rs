//! Worker side: runs a range of indices for one property and prints one START and one
//! DONE line per run on the (saved) stdout. Also: replay of a single file.
use crate::props::{self, Engine};
use crate::run::{self, RunResult, SqlReplay};
use serde_json::{Value, json};
use std::io::Write;

pub fn case_json(prop: &str, verif_seed: u64, idx: u64) -> Value {
    let info = props::prop(prop).expect("property");
    match info.engine {
        Engine::Sql | Engine::Crash => serde_json::to_value(run::gen_sql_case(prop, verif_seed, idx)).unwrap(),
        Engine::Wal => serde_json::to_value(crate::walsim::gen_case(verif_seed, idx)).unwrap(),
        Engine::Wire if served_index(idx) => serde_json::to_value(run::gen_sql_case(prop, verif_seed, idx)).unwrap(),
        Engine::Wire => serde_json::to_value(crate::wiresim::gen_case(verif_seed, idx)).unwrap(),
        Engine::Thread => serde_json::to_value(crate::threadsim::gen_case(verif_seed, idx)).unwrap(),
        Engine::Btree if prop == "C11" && idx % 2 == 1 => serde_json::to_value(run::gen_sql_case(prop, verif_seed, idx)).unwrap(),
        Engine::Btree => serde_json::to_value(crate::btsim::gen_case(prop, verif_seed, idx)).unwrap(),
        _ => json!({}),
    }
}

/// C20: every eighth run index is an E1 history driven through the server's request loop and the
/// wire protocol (E5b); the others are stream scenarios (E5).
pub fn served_index(idx: u64) -> bool {
    idx % 8 == 7
}

pub fn sample_json(prop: &str, verif_seed: u64, idx: u64) -> Value {
    let info = props::prop(prop).expect("property");
    match info.engine {
        Engine::Sql | Engine::Crash => run::sample_of(&run::gen_sql_case(prop, verif_seed, idx)),
        Engine::Wal => crate::walsim::sample_of(&crate::walsim::gen_case(verif_seed, idx)),
        Engine::Wire if served_index(idx) => run::sample_of(&run::gen_sql_case(prop, verif_seed, idx)),
        Engine::Wire => crate::wiresim::sample_of(&crate::wiresim::gen_case(verif_seed, idx)),
        Engine::Thread => crate::threadsim::sample_of(&crate::threadsim::gen_case(verif_seed, idx)),
        Engine::Btree if prop == "C11" && idx % 2 == 1 => run::sample_of(&run::gen_sql_case(prop, verif_seed, idx)),
        Engine::Btree => crate::btsim::sample_of(&crate::btsim::gen_case(prop, verif_seed, idx)),
        _ => json!({}),
    }
}

pub fn guards_for(prop: &str) -> Vec<String> {
    let info = props::prop(prop).expect("property");
    match info.engine {
        Engine::Sql | Engine::Crash | Engine::Btree | Engine::Wire => {
            if info.engine == Engine::Btree && prop != "C11" {
                return vec![];
            }
            let mut r = crate::util::Rng::new(1);
            props::profile_for(prop, &mut r).guards
        }
        _ => vec![],
    }
}

pub fn stubs_for(e: Engine) -> Vec<&'static str> {
    match e {
        Engine::Sql => vec!["client concurrency (one driver thread issues every call; the order of statements across sessions is the simulator's)"],
        Engine::Crash => vec!["process crash (on-disk image rebuilt from the recorded I/O prefix)"],
        Engine::Wal | Engine::Btree => vec!["everything above the storage component"],
        Engine::Thread => vec!["OS scheduler (baton scheduler at every lock / latch / queue point)", "idle poll and wall clock"],
        Engine::Wire => vec!["TCP socket (simulated byte stream; real loopback sockets on every 64th run index)", "the server's accept loop; on the simulated streams also the TcpStream shell of its client loop (the loop body - receive, process_request, send - is the real code, reached through the guarded export in axmos_server.rs; the loopback runs use the real run_client_loop)", "client concurrency in served histories (one driver thread issues every request)"],
    }
}

pub fn assumptions_for(_prop: &str) -> Vec<String> {
    vec![
        "the reference model (sim/src/model.rs) is the specification of snapshot isolation the results are compared with".into(),
        "histories on which the trigger predicate of an open known finding holds are not generated (guards_active)".into(),
        "HashMap iteration order inside the engine is not controlled; determinism is asserted on the logical event log".into(),
    ]
}

pub fn run_one(prop: &str, verif_seed: u64, idx: u64) -> RunResult {
    let info = props::prop(prop).expect("property");
    match info.engine {
        Engine::Sql => {
            let case = run::gen_sql_case(prop, verif_seed, idx);
            let mut r = run::run_sql_case(&case, idx);
            if let Some((i, g)) = run::audit_generated(&case) {
                r.counters.insert(format!("generator_tripped_guard:{g}"), 1);
                r.hazards.push(format!("generated history trips guard {g} at event {i}"));
            }
            r
        }
        Engine::Crash => {
            let case = run::gen_sql_case(prop, verif_seed, idx);
            let mut r = crate::crashsim::run_case(&case, idx);
            if let Some((i, g)) = run::audit_generated(&case) {
                r.counters.insert(format!("generator_tripped_guard:{g}"), 1);
                r.hazards.push(format!("generated history trips guard {g} at event {i}"));
            }
            r
        }
        Engine::Wal => crate::walsim::run_case(&crate::walsim::gen_case(verif_seed, idx), idx),
        Engine::Wire if served_index(idx) => {
            let case = run::gen_sql_case(prop, verif_seed, idx);
            let mut r = run::run_sql_case(&case, idx);
            if let Some((i, g)) = run::audit_generated(&case) {
                r.counters.insert(format!("generator_tripped_guard:{g}"), 1);
                r.hazards.push(format!("generated history trips guard {g} at event {i}"));
            }
            r
        }
        Engine::Wire => crate::wiresim::run_case(&crate::wiresim::gen_case(verif_seed, idx), idx),
        Engine::Thread => crate::threadsim::run_case(&crate::threadsim::gen_case(verif_seed, idx), idx),
        Engine::Btree if prop == "C11" && idx % 2 == 1 => {
            let case = run::gen_sql_case(prop, verif_seed, idx);
            let mut r = run::run_sql_case(&case, idx);
            if let Some((i, g)) = run::audit_generated(&case) {
                r.counters.insert(format!("generator_tripped_guard:{g}"), 1);
                r.hazards.push(format!("generated history trips guard {g} at event {i}"));
            }
            r
        }
        Engine::Btree => crate::btsim::run_case(&crate::btsim::gen_case(prop, verif_seed, idx), idx),
        _ => unimplemented!(),
    }
}

pub fn worker_main(args: &[String], mut out: std::fs::File) -> i32 {
    let prop = &args[0];
    let verif_seed: u64 = args[1].parse().unwrap();
    let lo: u64 = args[2].parse().unwrap();
    let hi: u64 = args[3].parse().unwrap();
    if props::prop(prop).map(|p| p.engine) == Some(Engine::Wire) {
        // an unbounded allocation must kill this worker, not the machine
        crate::wiresim::limit_memory(3 << 30);
    }
    for idx in lo..hi {
        writeln!(out, "START {idx}").unwrap();
        out.flush().unwrap();
        let r = run_one(prop, verif_seed, idx);
        writeln!(out, "DONE {}", serde_json::to_string(&r).unwrap()).unwrap();
        out.flush().unwrap();
    }
    if std::env::var("AXSIM_FDCOUNT").is_ok() {
        eprintln!("FDCOUNT {prop} after {} runs: {}", hi - lo, crate::util::open_fds().len());
    }
    crate::util::cleanup_scratch();
    0
}

/// Run one replay file; prints a DONE line. Exit code 0 always (the caller reads the line).
pub fn replay_raw(path: &str, mut out: std::fs::File) -> i32 {
    let text = std::fs::read_to_string(path).expect("read replay");
    let v: Value = serde_json::from_str(&text).expect("replay json");
    let engine = v["engine"].as_str().unwrap_or("");
    let r = if engine.starts_with("E1") {
        let case: SqlReplay = serde_json::from_value(v).expect("sql replay");
        run::run_sql_case(&case, 0)
    } else if engine.starts_with("E2") {
        let case: SqlReplay = serde_json::from_value(v).expect("crash replay");
        crate::crashsim::run_case(&case, 0)
    } else if engine.starts_with("E3b") {
        let case: crate::btsim::BtReplay = serde_json::from_value(v).expect("btree replay");
        crate::btsim::run_case(&case, 0)
    } else if engine.starts_with("E4") {
        let case: crate::threadsim::ThreadReplay = serde_json::from_value(v).expect("thread replay");
        crate::threadsim::run_case(&case, 0)
    } else if engine.starts_with("E5") {
        crate::wiresim::limit_memory(3 << 30);
        let case: crate::wiresim::WireReplay = serde_json::from_value(v).expect("wire replay");
        crate::wiresim::run_case(&case, 0)
    } else if engine.starts_with("E3a") {
        let case: crate::walsim::WalReplay = serde_json::from_value(v).expect("wal replay");
        crate::walsim::run_case(&case, 0)
    } else {
        eprintln!("unknown engine in replay");
        return 2;
    };
    writeln!(out, "DONE {}", serde_json::to_string(&r).unwrap()).unwrap();
    crate::util::cleanup_scratch();
    0
}
