#!/bin/bash
# Re-runs every seeded change under /verif/seeded against the quick checks recorded as catching it
# (or, for the ones recorded as not caught, against the check of their own property) and prints one
# line per change: CAUGHT / missed / NOAPPLY. /repo is restored after every change.
# NOT while a background run (vp run) is active: those rebuild from /repo's working tree, which this
# script patches and restores for every change.
# usage: tools/all_seeds.sh [PROP-filter]
set -u
cd /repo || exit 2
if ! git diff --quiet; then echo "/repo has uncommitted changes"; exit 2; fi
trap 'git -C /repo checkout -- . ' EXIT
for d in /verif/seeded/${1:-*}/*/; do
  name=$(basename $d); prop=$(basename $(dirname $d))
  meta=$d/meta.json
  if python3 -c "import json,sys; sys.exit(0 if json.load(open('$meta')).get('obsolete_since') else 1)"; then echo "$prop $name OBSOLETE"; continue; fi
  checks=$(python3 -c "import json; m=json.load(open('$meta')); print(' '.join(m.get('caught_by_checks') or [m['property']]))")
  if ! git apply --check $d/patch.diff 2>/dev/null; then echo "$prop $name NOAPPLY"; continue; fi
  git apply $d/patch.diff
  res=missed
  for c in $checks; do
    out=$(/verif/check $c 2>&1)
    if echo "$out" | grep -q "^VIOLATION"; then res="CAUGHT by $c ($(echo "$out" | grep -c '^VIOLATION') violations)"; break; fi
    if echo "$out" | grep -q "HARNESS"; then res="HARNESS-ERROR in $c: $(echo "$out" | grep HARNESS | head -1 | cut -c1-120)"; fi
  done
  git checkout -- .
  echo "$prop $name $res"
done
