#!/bin/bash
# Runs the repository's own test suite with the verification guard OFF (default features).
cd /repo && exec cargo nextest run --workspace --no-fail-fast --test-threads 8 --offline
