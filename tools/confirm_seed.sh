#!/bin/bash
# usage: confirm_seed.sh <worktree> <seed-name>
# Confirms in the scratch worktree: demo passes without the patch, fails with it, and the existing suite passes with it.
WT=$1; NAME=$2; D=$WT/seeded/$NAME
export CARGO_TARGET_DIR=$WT/target CARGO_NET_OFFLINE=true
cd $WT || exit 2
git checkout -q -- . 2>/dev/null
LOC=$(python3 -c "import json;print(json.load(open('$D/meta.json')).get('demo_location',''))")
UNDER=$(echo $NAME | tr '-' '_')
place_demo() {
  if echo "$LOC" | grep -q "src/io/tests"; then
    cp $D/demo.rs crates/axmos-db/src/io/tests/demo_$UNDER.rs
    grep -q "demo_$UNDER" crates/axmos-db/src/io/tests/mod.rs || echo "#[cfg(not(miri))] mod demo_$UNDER;" >> crates/axmos-db/src/io/tests/mod.rs
    DEMO_CMD="cargo test --offline -p axmosdb --lib demo_$UNDER"
  elif echo "$LOC" | grep -q "src/tree/tests"; then
    cp $D/demo.rs crates/axmos-db/src/tree/tests/demo_$UNDER.rs
    grep -q "demo_$UNDER" crates/axmos-db/src/tree/tests/mod.rs || echo "mod demo_$UNDER;" >> crates/axmos-db/src/tree/tests/mod.rs
    DEMO_CMD="cargo test --offline -p axmosdb --lib demo_$UNDER"
  elif echo "$LOC" | grep -q "/tests/"; then
    mkdir -p crates/axmos-db/tests; cp $D/demo.rs crates/axmos-db/tests/demo_$UNDER.rs
    DEMO_CMD="cargo test --offline -p axmosdb --test demo_$UNDER"
    grep -q 'feature = "verif"' $D/demo.rs && DEMO_CMD="cargo test --offline -p axmosdb --features verif --test demo_$UNDER"
  else
    echo "unknown demo location: $LOC"; exit 2
  fi
}
clean_demo() { rm -f crates/axmos-db/tests/demo_$UNDER.rs crates/axmos-db/src/io/tests/demo_$UNDER.rs crates/axmos-db/src/tree/tests/demo_$UNDER.rs; git checkout -q -- crates/axmos-db/src/io/tests/mod.rs crates/axmos-db/src/tree/tests/mod.rs 2>/dev/null; rmdir crates/axmos-db/tests 2>/dev/null; }
place_demo
$DEMO_CMD > /tmp/confirm_$(basename $WT)_$NAME.without.log 2>&1; W=$?
git apply $D/patch.diff || { echo "$NAME: patch does not apply"; clean_demo; exit 2; }
$DEMO_CMD > /tmp/confirm_$(basename $WT)_$NAME.with.log 2>&1; X=$?
clean_demo
cargo nextest run --offline -p axmosdb --no-fail-fast -j3 > /tmp/confirm_$(basename $WT)_$NAME.suite.log 2>&1; S=$?
FAILS=$(grep -E "^\s+FAIL " /tmp/confirm_$(basename $WT)_$NAME.suite.log | sort -u | wc -l)
git checkout -q -- .
echo "$NAME: demo_without_patch_exit=$W demo_with_patch_exit=$X suite_exit=$S suite_failures=$FAILS"
