#!/bin/bash
# Determinism audit: run indices [0,N) of each property twice - once in one process, once split over
# four processes started in reverse order - and compare the fingerprints of the logical event logs.
# usage: tools/determinism.sh [N] [props...]
N=${1:-300}; shift
BIN=/verif/sim/target/debug/axsim
PROPS=${*:-C01 C02 C03 C04 C06 C07 C08 C09 C10 C11 C12 C13 C14 C15 C16 C17 C20}
fp() { grep '^DONE' | python3 -c "
import sys,json
for l in sys.stdin:
    r=json.loads(l[5:]); print(r['idx'], r['fingerprint'], 'V' if r['violation'] else '-')" | sort -n; }
bad=0
for p in $PROPS; do
  $BIN worker $p 20260925 0 $N 2>/dev/null | fp > /dev/shm/det_a.$p
  Q=$((N/4))
  for k in 3 2 1 0; do $BIN worker $p 20260925 $((k*Q)) $(( (k+1)*Q )) > /dev/shm/det_w$k.$p 2>/dev/null & done; wait
  cat /dev/shm/det_w?.$p | fp > /dev/shm/det_b.$p
  head -n $((Q*4)) /dev/shm/det_a.$p > /dev/shm/det_a4.$p
  if diff -q /dev/shm/det_a4.$p /dev/shm/det_b.$p >/dev/null; then echo "$p: $((Q*4)) runs, identical fingerprints"; else echo "$p: MISMATCH"; diff /dev/shm/det_a4.$p /dev/shm/det_b.$p | head -5; bad=1; fi
  rm -f /dev/shm/det_*.$p
done
exit $bad
