#!/usr/bin/env python3
"""Regenerate the open-findings table of DESIGN.md (between the FINDINGS markers) from known_findings.json."""
import json, re, os
root = os.path.dirname(os.path.dirname(os.path.abspath(__file__)))
k = json.load(open(f"{root}/known_findings.json"))["findings"]
open_, fixed = {}, {}
for f in k:
    d = open_ if f["status"] == "open" else fixed
    e = d.setdefault(f["id"], {"props": [], "what": f["what_fails"], "trigger": f.get("trigger", ""), "commit": f.get("commit", "")})
    if f["property"] not in e["props"]:
        e["props"].append(f["property"])
rows = ["<!-- FINDINGS-BEGIN (tools/findingstable.py) -->",
        f"{len(open_)} open findings, {len(fixed)} repaired (the repaired ones are in 11.3; their reproducers run as regression tests).", "",
        "| finding | properties | guard (trigger predicate) | what fails |", "|---|---|---|---|"]
for fid, e in open_.items():
    rows.append(f"| {fid} | {' '.join(e['props'])} | `{e['trigger']}` | {e['what'].replace('|', '/')} |")
rows.append("<!-- FINDINGS-END -->")
p = f"{root}/DESIGN.md"
s = open(p).read()
if "FINDINGS-BEGIN" not in s:
    raise SystemExit("markers missing")
s = re.sub(r"<!-- FINDINGS-BEGIN.*?<!-- FINDINGS-END -->", lambda _: "\n".join(rows), s, flags=re.S)
open(p, "w").write(s)
print(len(open_), len(fixed))
