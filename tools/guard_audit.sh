#!/bin/bash
# Background guard audit (vp run): for each guard, run the named properties' quick checks with that one
# guard lifted (AXSIM_NOGUARD) from a snapshot of /verif. A guard whose lifting stays clean everywhere
# is stale or broader than its finding. Writes nothing into /verif.
# usage: tools/guard_audit.sh "<guard> <guard> ..." "<prop> <prop> ..." [seed]
set -u
GUARDS=$1; PROPS=$2; SEED=${3:-20260925}
ROOT=$(pwd)
export AXSIM_ROOT=$ROOT CARGO_TARGET_DIR=$ROOT/sim/target-audit CARGO_NET_OFFLINE=true
(cd sim && cargo build --offline 2>&1 | tail -1)
BIN=$CARGO_TARGET_DIR/debug/axsim
for g in $GUARDS; do
  for p in $PROPS; do
    out=$(AXSIM_NOGUARD=$g VERIF_SEED=$SEED $BIN check $p 2>&1 | grep -E "^property=|^  O" | cut -c1-200)
    n=$(echo "$out" | grep -o "violations=[0-9]*")
    echo "guard=$g prop=$p $n :: $(echo "$out" | grep '^  O' | sed 's/[0-9]\+/N/g' | sort | uniq -c | sort -nr | head -3 | tr '\n' ';')"
  done
done
rm -rf $CARGO_TARGET_DIR
