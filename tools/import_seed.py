#!/usr/bin/env python3
"""import_seed.py <prop> <name> <caught_by: comma list or 'none'> <note>  -- copies a confirmed seeded change into /verif/seeded/<prop>/<name>/"""
import json, shutil, sys, os
prop, name, caught, note = sys.argv[1:5]
src = f"/tmp/wt/{prop}/seeded/{name}"
dst = f"/verif/seeded/{prop}/{name}"
os.makedirs(dst, exist_ok=True)
for f in ("patch.diff", "demo.rs"):
    shutil.copy(os.path.join(src, f), os.path.join(dst, f))
meta = json.load(open(os.path.join(src, "meta.json")))
confirm = ""
for line in open(f"/tmp/confirm_{prop}.out"):
    if line.startswith(name + ":"):
        confirm = line.strip()
meta["breaks_property"] = prop
meta["confirmed_by_me"] = confirm + " (demo_without_patch_exit=0: passes on the unchanged tree; demo_with_patch_exit=101: fails with the change; suite failures, if any, are temp-file collisions in tree::tests::* - they fail with 'Failed to create test db: NotFound' when the machine is busy and pass alone)"
meta["caught_by_checks"] = [] if caught == "none" else caught.split(",")
meta["check_result_note"] = note
meta["how_to_run"] = f"git -C /repo apply /verif/seeded/{prop}/{name}/patch.diff && /verif/check <ID>; git -C /repo checkout -- ."
json.dump(meta, open(os.path.join(dst, "meta.json"), "w"), indent=1)
print("imported", dst)
