#!/usr/bin/env python3
"""Source of truth for /verif/known_findings.json (never written at check run time)."""
import json
F = []
def fixed(id, prop, commit, what, oracle="", replay=None):
    F.append(dict(id=id, property=prop, status="fixed", commit=commit, what_fails=what, oracle=oracle, trigger=None, replay=replay,
                  line=f"fixed: property={prop} {commit} {what}"))
def open_(id, prop, what, oracle, trigger, replay):
    F.append(dict(id=id, property=prop, status="open", what_fails=what, oracle=oracle, trigger=trigger, replay=replay))

fixed("D1", "C17", "f1ecb6d", "WAL: a second force after block zero filled overwrote earlier blocks; block zero was refilled out of order")
fixed("D1", "C01", "f1ecb6d", "150 autocommit inserts then kill: acknowledged rows lost (WAL flush overwrote earlier blocks)")
fixed("D30", "C17", "3bdc9d7", "WAL: once the log left block zero every new record got the same LSN")
fixed("D21", "C08", "c3c064c", "crash between log truncation and next header write: open failed with 'failed to fill whole buffer'")
fixed("D2", "C02", "c57900f", "ROLLBACK logged as COMMIT: a rolled-back transaction was redone after a crash")
fixed("D12", "C09", "f2bd205", "after flush()/VACUUM the same handle failed with out-of-memory then 'table not found' (cache capacity set to 0)")
fixed("D22", "C01", "821425a", "after a checkpoint persisted last_committed >= 1 no later acknowledged commit survived a crash (redo decoded logged rows through its own snapshot)")
fixed("D4", "C08", "05bfa59", "crash after checkpoint page writes, before log truncation, with CREATE in the log: open failed with 'already exists'")
fixed("D13", "C12", "58da8f5", "caches of 24-56 pages: after a few hundred page accesses every statement failed with 'Buffer pool got out of memory' (eviction cursor never wrapped)", "O-res", "findings/D13-eviction-cursor-never-wraps-oom.json")
fixed("D19", "C20", "dcce281", "6-byte Rows frame made the decoder request a >100 GB allocation and abort", "O-live:process-died", "findings/D19-rows-frame-huge-column-count.json")
fixed("D19b", "C20", "f81eb12", "10-byte Rows frame with zero columns and a huge row count exhausted memory (one empty row pushed per announced row)", "O-live:process-died", "findings/D19b-rows-frame-zero-columns-huge-row-count.json")
fixed("D36", "C16", "c23ba4a", "CREATE TABLE with PRIMARY KEY and UNIQUE aborted the process (overlapping copy in page defragmentation, UB check)")

# ---- open findings: E1 (history simulator) ----
for prop in ("C03", "C04"):
    open_("D5", prop, "UPDATE inside an open transaction is visible to other transactions at once (and survives ROLLBACK)", "O-res", "update_inside_session", "findings/D5-update-in-session-visible-to-others.json")
    fixed("D27", prop, "7223bd5", "a DELETE was silently skipped (and reports the row as deleted) while another transaction's delete of the row is pending: no write-write conflict was raised; if the other transaction then rolls back the row survived both", "O-state", "findings/D27-delete-skipped-when-another-delete-pending.json")
    fixed("D27b", prop, "2194af4", "a DELETE was silently skipped when another transaction's delete of the row had been rolled back (the stale mark made Tuple::delete return early); index entries likewise, so a UNIQUE key stayed blocked", "O-res", "findings/D27b-delete-after-rolled-back-delete-is-skipped.json")
fixed("D6", "C03", "0342cf8", "DROP TABLE inside a session destroyed the table before commit (tree deallocated at statement time)", "O-state", "findings/D6-drop-table-in-session-destroys-table.json")
fixed("D23", "C03", "6c3bffc", "in a session a multi-row INSERT whose 2nd row violates a constraint left the 1st row; COMMIT published it", "O-state", "findings/D23-failed-multi-row-insert-leaves-rows.json")
open_("D7", "C03", "any UPDATE of a table that has a PRIMARY KEY / UNIQUE index fails with 'datatype mismatch ... BigUInt'", "O-res", "history_contains_update", "findings/D7-update-on-table-with-unique-index.json")
open_("D24", "C03", "UPDATE of a column of a PRIMARY KEY table fails with 'unexpected data type: Int'", "O-res", "history_contains_update", "findings/D24-update-of-column-on-pk-table.json")
open_("D25", "C03", "after UPDATE, a DELETE followed by a read in the same transaction shows the pre-update version again", "O-res", "history_contains_update", "findings/D25-own-delete-after-update-shows-old-version.json")
fixed("F1", "C03", "fe2afc8", "INSERT of NULL into a PRIMARY KEY/UNIQUE column failed only after the row was stored: the row stayed and a later committed insert was lost", "O-state", "findings/F1-null-into-unique-column-leaves-row.json")
fixed("F3", "C03", "daba35a", "with more than three relations (tables + indexes) inserts corrupted catalog rows: 'table not found', panics or process abort (a catalog row replaced by a smaller one moved the page's free space pointer)", "O-res", "findings/F3-many-relations-concurrent-catalog-updates.json")
fixed("D9", "C16", "13832f4", "the 256th version of a table's catalog row (every inserted row added one) overflowed a u8 version counter: panic at storage/tuple.rs:1020 in builds with overflow checks, a worker died", "O-res", "findings/D9-256th-version-of-a-catalog-row-panics.json")
fixed("D15b", "C07", "13832f4", "after 45-90 inserts into one table (4 KiB pages) the table's catalog row, which kept a delta per insert, outgrew a page cell: further statements on the table failed with 'Expected overflow frame'", "O-res", "findings/D15b-catalog-row-outgrows-a-page-cell-after-many-inserts.json")
open_("F3b", "C15", "a table with several indexes: the next CREATE UNIQUE INDEX fails with 'Expected overflow frame' (the table's catalog row has outgrown a page cell and needs an overflow page)", "O-res", "more_than_3_relations", "findings/F3b-catalog-row-of-a-table-with-several-indexes-needs-an-overflow-page.json")

# ---- open findings: constraints (C07) ----
fixed("U1", "C07", "120fb94", "after an INSERT of key K was rolled back, K could be inserted twice: the UNIQUE check finds the aborted index entry and misses the live one", "O-res", "findings/U1-key-freed-by-rollback-can-be-inserted-twice.json")
fixed("U1b", "C07", "120fb94", "a key left behind by a failed multi-row INSERT and inserted again was missed by index lookups (k = K returns nothing)", "O-res", "findings/U1b-key-of-failed-insert-reinserted-is-missed-by-index-lookup.json")
fixed("D27c", "C15", "066429a", "a DROP TABLE of a table on which another open transaction has a pending DROP was silently skipped and reported as done (the catalog row already carries a delete mark): no conflict was raised, and the second DROP of the same transaction succeeded again", "O-res", "findings/D27c-drop-of-a-table-with-a-pending-drop-is-silently-skipped.json")
fixed("D27d", "C15", "066429a", "DROP TABLE after a rolled-back DROP of the same table (here: the session that had dropped it was lost in a reopen) reported success and did nothing; CREATE TABLE of the name then failed with 'already exists'", "O-res", "findings/D27d-drop-after-a-rolled-back-drop-is-skipped.json")
fixed("D10", "C07", "345c84d", "two open transactions inserted the same PRIMARY KEY / UNIQUE value and both committed (the UNIQUE check treated the other transaction's invisible index entry as a free key)", "O-res", "findings/D10-two-open-transactions-insert-the-same-unique-key-and-both-commit.json")
open_("U2c", "C07", "the catalog's name index keeps one entry per name: after DROP TABLE t (committed) and CREATE TABLE t, a transaction whose snapshot still sees the old t gets 'table not found'", "O-res", "table_name_reuse_while_session_open", "findings/U2c-reusing-a-dropped-table-name-hides-the-old-table-from-older-snapshots.json")
open_("U2", "C07", "deleting a row and re-inserting its UNIQUE key hides the old row from transactions whose snapshot predates the delete (index entry overwritten)", "O-res", "unique_key_reuse_while_session_open", "findings/U2-reinserted-unique-key-hides-old-row-from-older-snapshot.json")
open_("U3", "C07", "a transaction that deletes a row and re-inserts its UNIQUE key and then fails leaves the index without the original row", "O-res", "unique_key_reuse_while_session_open", "findings/U3-delete-and-reinsert-of-key-in-rolled-back-txn-breaks-index.json")
for prop in ("C07",):
    open_("D5", prop, "UPDATE inside an open transaction is visible to other transactions at once (and survives ROLLBACK)", "O-res", "update_inside_session", "findings/D5-update-in-session-visible-to-others.json")
    open_("D7", prop, "any UPDATE of a table that has a PRIMARY KEY / UNIQUE index fails with 'datatype mismatch ... BigUInt'", "O-res", "history_contains_update", "findings/D7-update-on-table-with-unique-index.json")
    fixed("F1", prop, "fe2afc8", "INSERT of NULL into a PRIMARY KEY/UNIQUE column failed only after the row was stored: the row stayed and a later committed insert was lost", "O-state", "findings/F1-null-into-unique-column-leaves-row.json")

# ---- open findings: VACUUM (C13) ----
fixed("D14", "C13", "cc4fedb", "VACUUM removed a row whose DELETE had been rolled back (or was still pending: VACUUM aborts it)", "O-state", "findings/D14-vacuum-removes-row-whose-delete-was-rolled-back.json")
fixed("D29", "C13", "daba35a", "CREATE TABLE after a VACUUM panicked (types/core.rs:341) and killed the worker (VACUUM shrinks catalog rows in place)", "O-res", "findings/D29-create-table-after-vacuum-panics.json")
fixed("D29b", "C13", "daba35a", "with two tables in the catalog, inserts after a VACUUM panicked (types/core.rs:341)", "O-res", "findings/D29b-insert-after-vacuum-with-two-tables-panics.json")
fixed("D29c", "C13", "daba35a", "UPDATE, VACUUM, UPDATE left the table unreadable ('btree page not found: 0')", "O-res", "findings/D29c-update-vacuum-update-loses-table.json")
fixed("D31", "C10", "daba35a", "a cell replaced by a smaller one (an update with a shorter payload) moved the free space pointer; the next insert overwrote the head of the lowest cell of the page: keys read back as garbage", "O-structure", "findings/D31-update-with-a-smaller-payload-corrupts-the-next-insert.json")
open_("D31e", "C10", "cells of mixed sizes up to ~650 bytes on 4 KiB pages with 5-6 minimum keys: an interior page that is not yet 'overflown' cannot take a divider as large as a leaf cell; the insert fails with 'Buffer overflow ... on a btreepage'", "O-map", "mixed_cell_sizes_with_large_cells", "findings/D31e-mixed-sizes-with-large-cells-interior-page-cannot-take-the-divider.json")
fixed("V2", "C03", "e1d3627", "VACUUM panicked (storage/tuple.rs:297) when a transaction that had created a table with an index was still open or had been rolled back: the catalog row's newest version is invisible, it has no older one, and the version walk read a delta header from the padding at its end", "O-res", "findings/V2-vacuum-with-an-uncommitted-create-table-with-index-panics.json")
fixed("V1", "C13", "1d11798", "statements executed in a session after VACUUM aborted its transaction were visible to everyone at once; its ROLLBACK failed with 'Transaction not found'", "O-state", "findings/V1-statements-after-vacuum-aborted-the-session-are-visible-at-once.json")

# ---- open findings: DDL (C15) ----
open_("X1", "C15", "CREATE UNIQUE INDEX inside an open transaction makes the table unusable for every other transaction ('Table not found N') until it commits", "O-res", "create_index_inside_session", "findings/X1-create-index-in-session-breaks-table-for-others.json")
open_("D16", "C15", "ALTER TABLE ... ADD COLUMN always fails ('Column with name ... was not found in schema')", "O-res", "history_contains_alter", "findings/D16-alter-add-column-fails.json")
open_("D17", "C15", "ALTER TABLE ... DROP COLUMN of a middle column leaves every existing row unreadable ('Unexpected EOF')", "O-state", "history_contains_alter", "findings/D17-alter-drop-column-leaves-rows-unreadable.json")
fixed("D6", "C15", "0342cf8", "DROP TABLE inside a session destroyed the table before commit (tree deallocated at statement time)", "O-state", "findings/D6-drop-table-in-session-destroys-table.json")

# ---- findings: hostile statements (C16) ----
fixed("D18b", "C16", "01e8bb8", "'*' inside an expression, EXISTS, IN (SELECT ...) and scalar sub-queries reached todo!()/unreachable!() in the evaluator and killed a pool worker", "O-res", "findings/D18b-star-inside-expression-panics.json")
fixed("D18a", "C16", "0cd9259", "integer division or modulo by zero panicked (types/core.rs:185/195) and killed the worker", "O-res", "findings/D18a-division-or-modulo-by-zero-panics.json")
fixed("D18f", "C16", "445d9f5", "an expression nested a few thousand levels deep (NOT NOT ..., parentheses) or a chain of 600+ operators overflowed the stack: the process aborted", "O-live:process-died", "findings/D18f-deeply-nested-expression-overflows-the-stack.json")
fixed("D35", "C16", "9ded0d1", "INSERT INTO t SELECT * FROM t never returned (the scan saw the rows it inserted)", "O-live:hang", "findings/D35-insert-select-from-same-table-never-returns.json")
fixed("D35b", "C16", "e7f1954", "INSERT INTO t SELECT * FROM t on a table of more than one leaf never returned: the exhausted source scan kept its last leaf latched and the first insert waited for it", "O-live:hang", "findings/D35b-insert-select-from-same-table-of-several-leaves-never-returns.json")
fixed("R1", "C02", "e2afc48", "checkpoint, then an unfinished transaction deletes a row of a table with a UNIQUE index, its log records reach the file, crash: open failed with 'UNIQUE constraint violated' (undo re-inserted the row, which was still there unmarked)", "O-open", "findings/R1-undo-of-delete-reinserts-live-row-unique-violation-open-fails.json")
fixed("R1b", "C02", "e2afc48", "an unfinished transaction deletes a row whose committed INSERT is still in the log, crash: open failed with 'UNIQUE constraint violated' (undo inserted the row, then redo inserted it again)", "O-open", "findings/R1b-undo-of-delete-inserts-row-whose-insert-is-redone.json")
fixed("R1c", "C01", "5fd18a0", "a row carrying the stale delete mark of a rolled-back transaction is checkpointed, an unfinished transaction deletes it, its log records reach the file, crash: open failed with 'UNIQUE constraint violated' (undo took the stale mark for the one to undo and re-inserted the row)", "O-open", "findings/R1c-undo-of-delete-meets-stale-mark-of-rolled-back-transaction.json")
fixed("D26", "C04", "5ffff49", "a session begun while the last committed transaction id was still 0 (before or right after the first autocommit statement of a new database) had no upper bound on its snapshot and saw everything that committed later", "O-res", "findings/D26-session-begun-before-any-commit-sees-later-commits.json")
fixed("T2", "C14", "2f03ae5", "SELECT COUNT(*) in one thread and INSERTs into the same table in others: the scan re-took a read latch it already held while a writer waited for it, and parking_lot queues new readers behind a waiting writer - the engine stopped for good (about every third run of a real-thread stress; invisible to the baton scheduler until it gave the locks that policy)", "O-deadlock", "findings/T2-count-scan-and-inserts-on-one-table-deadlock-on-a-page-latch.json")
fixed("T3", "C14", "7e7b5c5", "a scan that started while another thread's INSERT split the root leaf failed with 'Btree iterator received an invalid position to iterate over' (the first leaf was looked up, released, and latched again by the iterator)", "O-res", "findings/T3-scan-started-while-the-root-leaf-splits-fails-invalid-iterator-position.json")
fixed("S2", "C02", "3725cc4", "a page freed by a rebalance (or by VACUUM, DROP, an overflow chain) was written to the data file at once while the tree on disk still pointed at it: VACUUM, an INSERT whose rebalancing frees a page, crash before the next checkpoint - open failed with 'Buffer overflow ... Free space: 0'", "O-open", "findings/S2-page-freed-by-a-rebalance-is-written-through-then-crash-open-fails.json")
fixed("P1", "C03", "1940715", "VACUUM of a table with more leaves than the cache has frames (24-32 frames, 100+ rows of 0.5 KiB) never returned: it read every row through one tree handle that keeps each page pinned", "O-live:hang", "findings/P1-vacuum-of-a-table-larger-than-the-cache-never-returns.json")
fixed("P1b", "C07", "1940715", "CREATE UNIQUE INDEX on a table with more leaves than the cache has frames failed with 'Buffer pool got out of memory for new frames' (same pinning)", "O-res", "findings/P1b-create-index-on-a-table-larger-than-the-cache-fails-out-of-memory.json")

# ---- open findings: plans and indexes (C06) ----
fixed("J1", "C06", "0093459", "an equi-join lost matching rows when the left input held a NULL in the join column (merge join compared a NULL key as greater than every right key and ran the right input dry)", "O-plan", "findings/J1-equi-join-with-null-join-key-loses-matches.json")
open_("U2b", "C06", "DELETE and re-INSERT of a UNIQUE key inside an open transaction hides the committed row from every other transaction's index lookups until the commit", "O-plan", "unique_key_reuse_while_session_open", "findings/U2b-delete-and-reinsert-of-key-in-open-txn-hides-committed-row-from-index-lookups.json")
for prop in ("C06",):
    open_("D7", prop, "any UPDATE of a table that has a PRIMARY KEY / UNIQUE index fails with 'datatype mismatch ... BigUInt'", "O-res", "update_on_table_with_unique_index", "findings/D7-update-on-table-with-unique-index.json")
    fixed("U1b", prop, "120fb94", "a key left behind by a failed multi-row INSERT and inserted again was missed by index lookups (k = K returns nothing)", "O-res", "findings/U1b-key-of-failed-insert-reinserted-is-missed-by-index-lookup.json")

# ---- open findings: storage shapes (C12 and everything that stores rows) ----
open_("D31b", "C12", "rows whose payload needs overflow pages break the tree within a handful of inserts (panic at storage/core/buffer.rs:570, 'Buffer overflow ... on a btreepage')", "O-res", "rows_with_overflow_chains", "findings/D31b-rows-with-overflow-chains-break-the-tree-within-a-few-inserts.json")
fixed("D17b", "C15", "e1d3627", "ALTER TABLE ... DROP COLUMN of the last column can leave the table unreadable (panic at storage/tuple.rs:297) - another symptom of V2 (the delta walk read a header from alignment padding); the reproducer runs clean since that repair", "O-state", "findings/D17b-alter-drop-last-column-leaves-table-unreadable.json")
open_("X1b", "C15", "CREATE UNIQUE INDEX in autocommit while an older session is open: that session can no longer use the table ('Table not found N')", "O-res", "create_index_inside_session", "findings/X1b-create-index-while-older-session-open-hides-table-from-it.json")
open_("X2", "C15", "DROP TABLE without CASCADE leaves the table's named indexes in the catalog: CREATE UNIQUE INDEX with the name of an index of a dropped table fails with 'already exists', and the orphan index keeps its pages for ever (DROP TABLE ... CASCADE removes them)", "O-res", "index_name_of_dropped_table_reused", "findings/X2-plain-drop-table-leaves-its-named-indexes-in-the-catalog.json")
fixed("X3", "C15", "b57c28d", "a UNIQUE index over columns of different types listed out of table order panicked (types/core.rs:333) on the first duplicate probe", "O-res", "findings/X3-multi-column-index-out-of-table-order-panics-on-duplicate.json")

# ---- open findings: B+tree (C10 / C11) ----
for prop in ("C10", "C11"):
    fixed("D31c", prop, "0a4935a", "with cells of ~400 bytes or more on 4 KiB pages (400-byte payloads, or 180-byte keys with 200-byte payloads) a rebalance left a separator that misroutes (a key smaller than the separator in its right subtree) after ~100 operations - the tree had reached three levels", "O-structure", "findings/D31c-separator-misroutes-after-rebalance-with-400-byte-payloads.json")
fixed("D31d", "C10", "0a4935a", "tree of three levels (600+ rows of 200 bytes): a removal that merges interior pages below the root took the new divider from the first cell of an interior child instead of the parent's separator; the root separator then misrouted lookups", "O-structure", "findings/D31d-interior-merge-above-leaf-parents-leaves-misrouting-root-separator.json")
fixed("CS1", "C10", "8bdba18", "the page cache's eviction counter was a u16: after 65535 evictions a build with overflow checks panicked inside the pager (io/cache.rs:31)", "O-live:process-died", "findings/CS1-eviction-counter-overflow-panics-after-65535-evictions.json")
fixed("CS1", "C12", "8bdba18", "small caches: the 65536th eviction panicked in builds with overflow checks (u16 counter in the page cache statistics)")

fixed("L1", "C11", "b9391df", "a CREATE TABLE inside a transaction that is rolled back (or dropped by a reopen) leaked the table's root page: it belongs to no tree and is not on the free list", "O-pages", "findings/L1-rolled-back-create-table-leaks-its-root-page.json")

# ---- open findings: threads (C14) ----
fixed("T1", "C14", "4a6207e", "two client threads inserting into the same table lost acknowledged rows (final COUNT(*) below the number of acknowledged inserts; COUNT(*) below what was acknowledged before it started)", "O-state", "findings/T1-concurrent-inserts-into-one-table-lose-acknowledged-rows.json")

# ---- open findings: E2 (crash simulator) ----
fixed("D3", "C01", "04e35a2", "a transaction open at the crash on a table whose CREATE is still in the log made open fail ('Table not found'): undo runs before redo", "O-open", "findings/D3-open-txn-on-uncheckpointed-table.json")
fixed("D3b", "C08", "04e35a2", "an uncommitted CREATE TABLE in the log at the crash made open fail ('Table not found' while undoing it)", "O-open", "findings/D3b-uncommitted-create-at-crash.json")
fixed("D3c", "C01", "3f04a4b", "a committed CREATE TABLE logged after a CREATE of a transaction that never committed was re-created under a lower object id during redo (and the committed transactions were redone in transaction-id order, not log order): the records that followed did not find their table and open failed", "O-open", "findings/D3c-table-created-after-an-uncommitted-create-comes-back-under-another-id.json")
open_("D22b", "C01", "a crash inside a checkpoint, between its first page write and the log truncation, loses acknowledged rows or leaves tables unreadable (logical redo over half-written pages)", "O-durability", "crash_inside_checkpoint_page_writes", "findings/D22b-crash-inside-checkpoint.json")
open_("F4", "C01", "a checkpoint taken while a transaction is open writes its uncommitted changes and discards the log: after a crash they are permanent", "O-durability", "checkpoint_with_open_txn", "findings/F4-checkpoint-with-open-txn.json")
fixed("F5", "C02", "d9227de", "a transaction that inserted and then deleted a row and is open (or failed) at the crash left that row behind after recovery", "O-atomicity", "findings/F5-own-insert-then-delete-open-at-crash.json")
fixed("D6c", "C01", "ea2713a", "DROP TABLE wrote freed pages to the file before the transaction commits; a crash then made open fail while redoing the table's logged rows", "O-open", "findings/D6c-drop-table-writes-pages-before-commit.json")
open_("F7", "C01", "recovery of rows with overflow chains (several KB of text) leaves the table unreadable (panic at storage/core/buffer.rs:570)", "O-open", "rows_with_overflow_chains", "findings/F7-recovery-of-rows-with-overflow-chains.json")
fixed("D6d", "C01", "3725cc4", "deleting a row with an overflow chain writes the freed pages to the file before commit; after a crash the acknowledged row comes back corrupted (freed pages were written through, see S2)", "O-durability", "findings/D6d-delete-of-overflow-row-writes-pages-before-commit.json")
open_("S1", "C01", "once cache eviction has written a dirty page back before the next checkpoint (steal), a crash makes open fail or lose acknowledged rows: logical redo runs over pages that already hold the changes", "O-open", "crash_after_stolen_page", "findings/S1-crash-after-an-evicted-dirty-page-was-written-back.json")
open_("F6", "C08", "recovery truncates the log before the pages it redid are durable: a crash right after a recovery loses everything it recovered", "O-repeat", "crash_after_recovery_truncated_log", "findings/F6-recovery-truncates-log-before-redone-pages-are-durable.json")

# ---- open findings: E3a (WAL) ----
fixed("W1", "C17", "abc1c6f", "an append whose size lay between (block size - 2 headers) and the advertised max_record_size was rejected after the log header had been updated; reading the log then failed until the next force", "O-wal", "findings/W1-rejected-append-leaves-log-unreadable-until-next-force.json")

json.dump({"comment": "Known findings of the pinned tree. 'open': genuine defects recorded rather than repaired; each check prints KNOWN-FINDING for those of its property whose reproducer still fails. 'fixed': repaired by a fix: commit in /repo; a fixed entry suppresses nothing. Never written at run time. Generated by tools/mkfindings.py.", "findings": F}, open("/verif/known_findings.json", "w"), indent=1)
print(len(F), "findings")
