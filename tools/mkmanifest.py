#!/usr/bin/env python3
"""Writes /verif/MANIFEST.json from the table below (kept in one place so it stays valid)."""
import json, subprocess

HOOK_COMMITS = subprocess.run(["git", "-C", "/repo", "log", "--format=%h %s", "--grep=^verif hook"],
                              capture_output=True, text=True).stdout.strip().splitlines()

E1_NOTE = ("Trusted base: the reference model in sim/src/model.rs (textbook snapshot isolation over a multi-version map), "
           "the statement generator and the engine wrapper. One driver thread issues every call, so the interleaving of "
           "sessions' statements is decided by the simulator; thread-level races are C14's subject. Histories on which the "
           "trigger predicate of an open known finding holds are not generated (listed as guards_active in the evidence).")

CHECKS = {
 "C03": dict(engine="E1-sqlsim", level="exploration", ref="4 (C03), 2.3 (E1)",
   technique="deterministic simulation: seeded histories (rollback / session drop / failing statements at arbitrary positions, interleaved sessions) against a reference SI model, delta-debugged replay",
   text="Seeded search over histories in which transactions end in ROLLBACK, session drop, a failing statement or a failing batch at arbitrary positions, with up to three interleaved sessions; every later read and every quiescent-point table dump is compared with a reference model. Exploration is the right level: the property is quantified over unbounded histories; a clean batch is evidence, not proof."),
 "C04": dict(engine="E1-sqlsim", level="exploration", ref="4 (C04), 2.3 (E1)",
   technique="deterministic simulation: seeded interleavings of 2-4 sessions' statements checked against a snapshot-isolation reference model (read-your-snapshot, first-committer-wins)",
   text="Seeded search over statement interleavings of 2-4 open transactions (commits and aborts placed between other sessions' reads); every read must equal the model's snapshot read and of two overlapping writers of one row at most one may commit."),
 "C09": dict(engine="E1-sqlsim", level="exploration", ref="4 (C09), 2.3 (E1)",
   technique="deterministic simulation: seeded histories split by clean close/reopen with varying open() configurations, compared with the reference model across the reopen",
   text="Seeded histories (committed and rolled-back transactions, batches) split at arbitrary points by 1-6 clean close/reopen cycles with a different DBConfig each time; contents after every reopen must equal the model."),
}

E2_NOTE = ("Fault enumeration is inside each sampled history: every prefix of the file mutations the engine issued is materialised as an on-disk image and recovered with the real Database::open; histories themselves are sampled by seed. "
           "Disk model = the property's: writes are atomic, durable and ordered as issued (no torn pages, no reordering of un-fsynced writes, no I/O errors). Trusted base: the I/O tap in DBFile (hook H1), the image builder, the reference model. "
           "Fault-space guards of open findings (crash points inside a checkpoint's page-write window; nested points after recovery's log truncation) are counted in the evidence, not judged.")
CHECKS.update({
 "C01": dict(engine="E2-crashsim", level="fault_enumeration", ref="4 (C01), 2.3 (E2)", note=E2_NOTE,
   technique="deterministic simulation with crash-fault enumeration: I/O tap records every file mutation of a seeded history; every prefix is rebuilt as a disk image, recovered by the real engine and compared with the acknowledged state of a reference model",
   text="For each seeded history (DDL, autocommit statements, sessions, batches, checkpoints, reopen) EVERY crash point - every prefix of the recorded writes/truncations - is recovered and must contain all acknowledged commits. Exhaustive over crash points within a history, sampled over histories."),
 "C02": dict(engine="E2-crashsim", level="fault_enumeration", ref="4 (C02), 2.3 (E2)", note=E2_NOTE,
   technique="deterministic simulation with crash-fault enumeration (as C01) over histories with open, rolled-back, dropped and failed transactions; oracle: recovered contents = acknowledged commits (+ the one in-flight commit as a whole)",
   text="Same enumeration as C01 with a workload mix in which transactions are open, rolled back, dropped or failed at the crash point; the recovered contents must equal the acknowledged state, or that state plus the single in-flight commit in full - nothing else, nothing partial."),
 "C08": dict(engine="E2-crashsim", level="fault_enumeration", ref="4 (C08), 2.3 (E2)", note=E2_NOTE,
   technique="deterministic simulation with nested crash-fault enumeration: every I/O prefix of a history is recovered; the recovery's own I/O is recorded and its prefixes recovered again (depth 2); smoke transaction and repeated open after each recovery",
   text="For every crash point of every sampled history: open succeeds, the recovered database accepts a write-then-read transaction, closing and opening it again changes nothing, and recovery interrupted at each of its own I/O prefixes and restarted yields the same contents."),
})

CHECKS.update({
 "C07": dict(engine="E1-sqlsim", level="exploration", ref="4 (C07), 2.3 (E1)",
   technique="deterministic simulation: seeded histories on tables with PRIMARY KEY / UNIQUE / NOT NULL over a five-value key domain (collisions, delete-then-reinsert, rollback-then-reinsert, two sessions), model accepts <=> engine accepts, committed state compared after every step",
   text="Seeded histories in which keys collide constantly (inserts, deletes, re-inserts, rollbacks, rejected statements inside sessions and batches); a statement the model rejects must be rejected whole and one it accepts must be accepted, and the committed state never holds a duplicate key or a NULL in a NOT NULL column."),
 "C17": dict(engine="E3a-walsim", level="fault_enumeration", ref="4 (C17), 2.3 (E3a)",
   note="Drives the real WriteAheadLog through hook H2 (facade: create/open/push/force/truncate/read). Trusted base: the facade's push (computes the next LSN exactly as Pager::push_to_log does), the vector model, the I/O tap. Reads are issued only when the log is quiescent on disk (the engine itself reads its log only during recovery); the forced-watermark half of the property is judged at the crash points. Disk model as in C01.",
   technique="deterministic simulation of the log component with crash-fault enumeration: seeded append/force/reopen/truncate/read sequences with boundary-hitting sizes against a vector model; every I/O prefix reopened and read back",
   text="Seeded operation sequences with payload sizes from empty to one block, all record kinds, read-ahead 1-6; after every quiescent read the records must equal the model exactly (order, strictly increasing LSNs, tid, kind, undo, redo), and at EVERY prefix of the recorded file mutations the reopened log must return a prefix of what was appended that covers every acknowledged force."),
})

CHECKS.update({
 "C20": dict(engine="E5-wiresim", level="exploration", ref="4 (C20), 2.3 (E5)",
   note="The TCP socket is replaced by a simulated byte stream implementing Read/Write whose every call draws its behaviour (fragment size, short write, EINTR, EOF) from the seed; framing, encoding and decoding are the real axmosdb::tcp code. The worker runs under a 3 GiB address-space limit so that an unbounded allocation kills the worker, which the supervisor reports with the scenario as replay. WouldBlock is not injected (the server uses blocking sockets). Every eighth run index is a whole-database history (engine E1) issued through the server: the server binary's source file is compiled into the simulator as a module and its guarded export gives one iteration of the client loop (receive a request, process_request, send the response) over any Read/Write pair; each simulated connection has a BufReader and a BufWriter over simulated streams as the real loop has over the socket. Every 64th run index uses real loopback TCP connections handed to the real run_client_loop on its own thread (second guarded export), with several frames per write and exactly one request in flight, so that the shell of the real loop (buffering across requests, end of connection) is exercised too; the accept loop and Shutdown are not run. Result sets with zero columns but non-zero rows are not generated (they carry no bytes per row and are rejected as malformed since fix f81eb12).",
   technique="deterministic simulation of the byte stream: seeded fragmentation / short writes / EINTR / EOF-at-any-offset / garbage and header-biased mutation over the real framing and codec, round-trip equality oracle, bounded-allocation oracle via rlimit; plus seeded whole-database histories driven through the real server request loop over simulated streams (pipelined frames, clients vanishing mid-transaction with or without a broken frame), every rendered response compared with a snapshot-isolation reference model",
   text="Seeded stream scenarios: every Request/Response variant with generated field values (empty, non-ASCII, multi-megabyte strings, result sets 0..400 rows x 0..8 columns) must be received exactly as sent under fragmentation, short writes and EINTR with nothing left over in the stream; truncated, random, oversize-prefixed and mutated frames must yield a protocol error (or a well-formed message), never a panic, hang or unbounded allocation. Server side: histories of sessions (BEGIN / statements / COMMIT / ROLLBACK), autocommit statements, DDL, failing statements, VACUUM, ANALYZE, EXPLAIN, CLOSE + OPEN and vanishing clients are sent as requests through process_request; the rows the server renders (including empty results, NULLs and text ending in blanks, quotes, backslashes or non-ASCII characters) must equal the model's rows, a Rows response must be as wide as its header, a vanished client's transaction must leave no effects, and every request byte must be consumed."),
})

CHECKS.update({
 "C13": dict(engine="E1-sqlsim", level="exploration", ref="4 (C13), 2.3 (E1)",
   technique="deterministic simulation: seeded histories with VACUUM at arbitrary points (any number of times, with or without reopen), table contents compared with the reference model immediately before and after every VACUUM and at every later read",
   text="Seeded histories of committed and rolled-back inserts and deletes with VACUUM at arbitrary points; the state read by a fresh transaction just before and just after each VACUUM must equal the model, later sessions read correctly and the database stays usable. After the repairs of D14, D29, V1, V2, L1 and D6 the explored region has one or two tables, rolled-back deletes, DDL (CREATE / DROP in committed and rolled-back transactions), sessions whose transaction VACUUM aborted (they must be refused afterwards) and a whole-file page audit after VACUUM (no page of a dropped or never-committed relation remains allocated); UPDATE stays outside (open findings D5/D7). Most VACUUMs do free bytes (counted)."),
 "C15": dict(engine="E1-sqlsim", level="exploration", ref="4 (C15), 2.3 (E1)",
   technique="deterministic simulation: seeded DDL-heavy histories (CREATE TABLE / CREATE UNIQUE INDEX / DROP TABLE inside committed and rolled-back transactions, name reuse, reopen) with name resolution and table shapes compared against a versioned-catalog reference model",
   text="Seeded histories interleaving CREATE TABLE, CREATE UNIQUE INDEX and DROP TABLE with DML on the same and other tables, in autocommit, in committed and in rolled-back transactions, with reuse of dropped names and reopen; every later statement must resolve names exactly as the model's versioned catalog does and other tables stay unchanged. ALTER TABLE is covered only by the reproducers of open findings D16/D17."),
})

CHECKS.update({
 "C16": dict(engine="E1-sqlsim", level="exploration", ref="4 (C16), 2.3 (E1)",
   technique="deterministic simulation: hostile SQL text (random bytes, token soups, truncated / spliced / duplicated valid statements, nesting ramps, ill-typed and exotic well-formed statements) injected at arbitrary points of arbitrary sessions of seeded histories; oracles: call returns, no engine thread panicked, state equals the reference model afterwards",
   text="Seeded histories into which hostile statements are injected at any point of any session or in autocommit; every call must return (a hung or dead worker process is attributed to its seed by the supervisor), no engine thread may panic (panic hook checked after every call), and the session and database must afterwards hold exactly what the reference model holds. The input half of the property is input generation; the simulation content is the liveness / conservation half."),
})

CHECKS.update({
 "C12": dict(engine="E1-sqlsim", level="exploration", ref="4 (C12), 2.3 (E1)",
   technique="deterministic simulation, differential over configurations: each seeded history is executed against three databases (reference; 24-36 page cache; random page size / min keys / siblings / pool) and every result and the final contents are compared with the reference model and across configurations; evictions measured by a cache probe",
   text="One seeded history (many uniform ~0.5 KiB rows in two tables, sessions, batches, deletes) is executed under three configurations drawn from the documented ranges; every statement result, every state check and the logical event log must be identical, and no out-of-memory error is accepted at >= 24 cache pages. A run counts as non-trivial only if the small-cache configuration really evicted pages (cache probe). Rows with overflow chains, mixed cell sizes and UPDATE are outside the region (open findings D31/D32)."),
})

CHECKS.update({
 "C14": dict(engine="E4-threadsim", level="exploration", ref="4 (C14), 2.3 (E4), Appendix B",
   note="Real client threads and the engine's real pool workers run the real code, but exactly one registered thread holds the baton at any time; the baton changes hands only at the hook-H3 points (pager lock, page latches, frame byte access, job queue push/pop/idle wait, task completion wait, worker start). The pager lock and the page latches have parking_lot's queueing policy in the simulation (a waiting writer keeps new non-recursive readers out; a recursive shared acquisition goes ahead while the lock is held shared), so a re-taken read lock deadlocks with a waiting writer as it does in reality; locks without a hook site (the transaction table, the job queue mutex) have no modelled policy. Races that need a preemption inside a latch-protected region are out of reach. Locks whose critical sections contain no H3 point need no point. Teardown (handle drop, pool shutdown) runs after the scheduler is uninstalled and is not part of the schedule. shuttle/loom cannot drive this code (parking_lot).",
   technique="deterministic simulation of thread schedules: baton scheduler over cooperative hook points, seeded random interleavings of 2-4 client threads and 1-4 pool workers, exact deadlock detection, per-call step budget, sequence-stamped history with COUNT(*) linearizability bounds, recorded choice list as replay",
   text="Seeded schedules of 2-4 client threads (own session or autocommit; all on one table or each on its own, reading any table; half of the runs also delete own rows, 40 % with a PRIMARY KEY index, a third with wide rows so that tables span several leaves and split during other clients' scans) over 1-4 pool workers. Oracles: no deadlock (no eligible thread while a client call is unfinished - detected at the step it happens), every call returns within a step budget, no engine thread panics, no statement fails for internal reasons, every SELECT COUNT(*) lies between the inserts acknowledged before it was invoked and those invoked before it returned, and the final contents equal the acknowledged (and committed) inserts minus deletes."),
})

E3B_NOTE = ("Drives the real Btree over a real Pager on a real file through hook H2 (facade::btree); the structural dump is read through the pager (so it also exercises eviction and re-read with tiny caches). Trusted base: the facade's plumbing (tuple construction, key serialisation, page walk), the BTreeMap model with the harness's own key order, the audit code. "
            "The schedule/fault content of these two properties is thin: the only environment events are eviction write-backs / re-reads forced by small caches and checkpoints between operations; they are claimed as model-based simulation of a storage component. One payload size per tree and no overflow pages (open findings D31/D31b/D31c/D32). For C11 the whole-database audit (facade dbpages) checks ownership only, not key order, and runs only while no session is open.")
CHECKS.update({
 "C10": dict(engine="E3b-btreesim", level="exploration", ref="4 (C10), 2.3 (E3b)", note=E3B_NOTE,
   technique="deterministic simulation of the storage component: seeded operation sequences on the real B+tree over a real pager under a configuration swarm (page size, min keys, siblings, caches down to 16 pages, checkpoints), BTreeMap reference model and structural audit after every mutation",
   text="Seeded sequences of 10-400 insert / upsert / update / remove / lookup / scan / checkpoint operations with u64, i64 (negative half) and fixed-width text keys in ascending, descending, random and delete-everything orders; after every operation results equal a BTreeMap with the harness's own comparator, and after every mutation the tree is audited: keys strictly ordered within and across pages, every separator routes, all leaves at one depth, sibling links mirror key order and are mutually inverse, slot counts consistent, no page reached twice."),
 "C11": dict(engine="E3b-btreesim", level="exploration", ref="4 (C11), 2.3 (E3b)", note=E3B_NOTE,
   technique="deterministic simulation of the storage component with a page-ownership audit as invariant after every mutation: each page 1..total_pages is exactly one of tree node / overflow link / free-list member; free list acyclic with recorded head and tail; file does not grow while the free list is non-empty",
   text="Two kinds of seeded runs alternate. Even run indices: the B+tree simulator of C10 with the page-ownership audit after every mutation (every page of the file except page zero is a node of the tree, a link of one overflow chain or a member of the free list, exactly once; the free list is acyclic and matches its recorded head and tail; an operation never grows the file while the free list stays non-empty). Odd run indices: whole-database histories (DDL, DML, drops, rollbacks, checkpoints, reopen) with the same ownership audit over the catalog trees, every visible relation's tree, overflow chains and the free list at every quiescent point."),
})

CHECKS.update({
 "C06": dict(engine="E1-sqlsim", level="exploration", ref="4 (C06), 2.3 (E1)",
   technique="deterministic simulation, differential over plans: seeded histories (inserts, deletes, rollbacks, indexes created before or after the data) followed at quiescent points by plan-variant families of one logical query (index scan vs wrapped key, literal on either side, point vs range vs BETWEEN, merge join vs wrapped-key join), all compared with the reference model; EXPLAIN confirms that the variants use different physical operators",
   text="At every quiescent point of a seeded history, families of spellings of one logical query are issued - col = v / v = col / col + 0 = v / degenerate range; lo <= col <= hi in six spellings; an equi-join with the key plain, wrapped, and with an extra WHERE - and every variant must return the multiset the reference model computes. A family counts as non-trivial only if EXPLAIN shows different physical operators among its variants. ANALYZE (open finding D34) and FROM-order permutations (D33) are not exercised."),
})

NOT_APPLICABLE = {
 "C05": "pure function of (table contents, query text): no schedule, crash point, clock or interleaving enters it; needs differential/property-based testing, not simulation",
 "C18": "pure function of (stored bytes, schema, snapshot, horizon); the property asks for bounded exhaustive enumeration of a codec, not simulation",
 "C19": "algebraic laws over pairs/triples of values: pure, no environment to simulate",
}
PENDING = {}

def main():
    all_ids = [json.loads(l)["id"] for l in open("/verif/properties.jsonl")]
    checks = []
    for pid, c in CHECKS.items():
        checks.append({
            "property_id": pid,
            "quick_cmd": f"./check {pid} --tier quick",
            "thorough_cmd": f"./check {pid} --tier thorough",
            "evidence_file": f"/verif/evidence/{pid}.json",
            "replay_cmd_template": f"./check {pid} --replay {{path}}",
            "engine": c["engine"],
            "level_claimed": {"category": c["level"], "text": c["text"], "design_ref": "DESIGN.md section " + c["ref"]},
            "level_note": c.get("note", E1_NOTE),
            "technique": c["technique"],
        })
    na = [{"property_id": k, "reason": v} for k, v in NOT_APPLICABLE.items()]
    for pid in all_ids:
        if pid not in CHECKS and pid not in NOT_APPLICABLE:
            na.append({"property_id": pid, "reason": PENDING.get(pid, "not claimed yet: the simulation engine for this property is designed (DESIGN.md section 4) but its check is not registered until it runs clean on the unchanged tree")})
    m = {
        "version": 1,
        "setup_cmd": "cd /verif/sim && CARGO_NET_OFFLINE=true cargo build --offline",
        "hooks": {
            "guard": "cargo feature `verif` of crate axmosdb (crates/axmos-db)",
            "enable": "the simulator crate /verif/sim depends on /repo/crates/axmos-db by path with features = [\"verif\"]; every ./check rebuilds it from /repo's working tree",
            "baseline_off_cmd": "/verif/tools/baseline_off.sh",
            "source_commits": [l.split()[0] for l in HOOK_COMMITS],
            "add_only": True,
        },
        "engines": [
            {"name": "E3b-btreesim", "path": "/verif/sim/src/btsim.rs", "serves_properties": ["C10", "C11"], "kind_free_text": "storage-level simulator of the B+tree over a real pager through the verif facade: BTreeMap model, structural and page-ownership audits"},
            {"name": "E4-threadsim", "path": "/verif/sim/src/threadsim.rs", "serves_properties": ["C14"], "kind_free_text": "real threads under a baton scheduler installed through hook H3: one runnable thread at a time, seeded choice at every lock / latch / queue / job-wait point"},
            {"name": "E5-wiresim", "path": "/verif/sim/src/wiresim.rs", "serves_properties": ["C20"], "kind_free_text": "simulated byte stream (fragmentation, short writes, EINTR, EOF, garbage) under the real framing and codec"},
            {"name": "E5b-served", "path": "/verif/sim/src/served.rs", "serves_properties": ["C20"], "kind_free_text": "the real server request loop body over simulated per-connection streams; carries E1 histories (transport of the engine wrapper)"},
            {"name": "E3a-walsim", "path": "/verif/sim/src/walsim.rs", "serves_properties": ["C17"], "kind_free_text": "storage-level simulator of the write-ahead log over the verif facade, with crash at every I/O prefix"},
            {"name": "E2-crashsim", "path": "/verif/sim/src/crashsim.rs", "serves_properties": [p for p, c in CHECKS.items() if c["engine"] == "E2-crashsim"], "kind_free_text": "E1 plus the I/O tap: every prefix of a history's file mutations is materialised as a disk image, opened with the real recovery and judged against the acknowledged model state; nested for recovery's own I/O"},
            {"name": "E1-sqlsim", "path": "/verif/sim/src/sqlsim.rs", "serves_properties": [p for p, c in CHECKS.items() if c["engine"] == "E1-sqlsim"], "kind_free_text": "whole-database history simulator: seeded event sequences over sessions / autocommit / batches / vacuum / checkpoint / reopen, reference SI model, result and state oracles"},
        ],
        "checks": checks,
        "not_applicable": na,
        "notes": "Known findings: /verif/known_findings.json (reproducers under /verif/findings). Replays of new violations are written to /verif/replays/. VERIF_SEED selects the seed (default 20260925); AXSIM_RUNS / AXSIM_WORKERS / AXSIM_BUDGET_S override budgets.",
    }
    json.dump(m, open("/verif/MANIFEST.json", "w"), indent=1)
    print("wrote MANIFEST.json with", len(checks), "checks,", len(na), "not_applicable")

if __name__ == "__main__":
    main()
