#!/usr/bin/env python3
"""Regenerate the seeded-changes table of DESIGN.md (between the SEEDTABLE markers) from seeded/*/*/meta.json."""
import json, glob, re, os
root = os.path.dirname(os.path.dirname(os.path.abspath(__file__)))
rows, caught = [], 0
for f in sorted(glob.glob(f"{root}/seeded/*/*/meta.json")):
    m = json.load(open(f))
    c = m.get("caught_by_checks") or []
    caught += bool(c)
    note = (m.get("check_result_note") or "").replace("|", "/").replace("\n", " ")
    rows.append(f"| {m['property']} | `{m['name']}` | {', '.join(c) if c else '—'} | {note} |")
table = "\n".join(["<!-- SEEDTABLE-BEGIN (tools/seedtable.py) -->",
                   f"{len(rows)} changes, {caught} caught by a registered quick check.", "",
                   "| property | change | caught by | note |", "|---|---|---|---|"] + rows + ["<!-- SEEDTABLE-END -->"])
p = f"{root}/DESIGN.md"
s = open(p).read()
if "SEEDTABLE-BEGIN" in s:
    s = re.sub(r"<!-- SEEDTABLE-BEGIN.*?<!-- SEEDTABLE-END -->", lambda _: table, s, flags=re.S)
else:
    raise SystemExit("markers missing")
open(p, "w").write(s)
print(len(rows), caught)
