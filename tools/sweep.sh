#!/bin/bash
# Background sweep (vp run): every registered check, quick tier, over a range of VERIF_SEEDs, from a
# snapshot of /verif. Writes nothing into /verif. usage: tools/sweep.sh <first-seed> <last-seed> [props...]
set -u
A=$1; B=$2; shift 2
ROOT=$(pwd)
export AXSIM_ROOT=$ROOT CARGO_TARGET_DIR=$ROOT/sim/target-sweep CARGO_NET_OFFLINE=true
(cd sim && cargo build --offline 2>&1 | tail -1)
BIN=$CARGO_TARGET_DIR/debug/axsim
PROPS=${*:-C01 C02 C03 C04 C06 C07 C08 C09 C10 C11 C12 C13 C14 C15 C16 C17 C20}
for s in $(seq $A $B); do
  for p in $PROPS; do
    out=$(VERIF_SEED=$s $BIN check $p 2>&1 | grep -E "VIOLATION|HARNESS|^property=|^  O")
    echo "seed=$s $(echo "$out" | grep '^property=')"
    echo "$out" | grep -E "VIOLATION|HARNESS|^  O" | cut -c1-400
  done
done
rm -rf $CARGO_TARGET_DIR
