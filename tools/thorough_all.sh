#!/bin/bash
# Background run (vp run): every registered check once at the thorough tier, from a snapshot.
set -u
ROOT=$(pwd)
export AXSIM_ROOT=$ROOT CARGO_TARGET_DIR=$ROOT/sim/target-thorough CARGO_NET_OFFLINE=true
(cd sim && cargo build --offline 2>&1 | tail -1)
BIN=$CARGO_TARGET_DIR/debug/axsim
for p in ${*:-C03 C04 C06 C07 C09 C10 C11 C12 C13 C14 C15 C16 C17 C20 C01 C02 C08}; do
  /usr/bin/time -f "$p wall %e s" $BIN check $p --tier thorough 2>&1 | grep -E "VIOLATION|HARNESS|^property=|^  O|wall" | cut -c1-400
done
rm -rf $CARGO_TARGET_DIR
