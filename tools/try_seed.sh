#!/bin/bash
# usage: tools/try_seed.sh <patch.diff> <prop> [<prop>...]   -- applies a seeded change to /repo, runs the quick checks, reverts.
# (not while a background run is active; and rebuild - ./check does - before using sim/target/debug/axsim
# directly afterwards: the binary left behind still contains the change)
set -u
PATCH=$1; shift
cd /repo || exit 2
if ! git diff --quiet; then echo "/repo has uncommitted changes"; exit 2; fi
git apply "$PATCH" || { echo "patch does not apply"; exit 2; }
trap 'git -C /repo checkout -- . ' EXIT
for p in "$@"; do
  echo "--- $p with $(basename $(dirname $PATCH))"
  /verif/check $p 2>&1 | grep -E "VIOLATION|^property=|HARNESS" | cut -c1-300 | head -6
done
